"""Simulated disk under the real HDF5 library.

``oqupy.process_tensor.h5py`` is replaced by ``H5Shim`` whose ``File()`` opens
the *real* ``h5py.File`` on a Python file object (h5py's ``fileobj`` driver)
backed by ``SimDisk``.  Every write/truncate the HDF5 C library issues is
appended to the file's write log; the durable image after a process death at
any instant is a prefix of that log applied to the file's initial content
(optionally with the next multi-page write torn at a page boundary).
"""
import io
import os as _os
import tempfile as _tempfile
import types

PAGE = 4096


class SimFile(io.RawIOBase):
    """In-memory file that logs every mutation."""

    def __init__(self, image=b"", log=None, readonly=False):
        super().__init__()
        self.buf = bytearray(image)
        self.pos = 0
        self.log = log
        self.readonly = readonly

    def readable(self):
        return True

    def writable(self):
        return not self.readonly

    def seekable(self):
        return True

    def seek(self, off, whence=0):
        if whence == 0:
            self.pos = off
        elif whence == 1:
            self.pos += off
        else:
            self.pos = len(self.buf) + off
        return self.pos

    def tell(self):
        return self.pos

    def readinto(self, b):
        # like HDF5's own sec2 driver: a read that reaches past the end of
        # the file yields zeros for the missing part (a truncated image must
        # not make the driver wait for bytes that never come)
        want = len(b)
        n = min(want, max(0, len(self.buf) - self.pos))
        b[:n] = self.buf[self.pos:self.pos + n]
        if n < want:
            b[n:want] = bytes(want - n)
        self.pos += want
        return want

    def write(self, data):
        if self.readonly:
            raise io.UnsupportedOperation("write")
        data = bytes(data)
        if self.log is not None:
            self.log.append(("w", self.pos, data))
        _apply_write(self.buf, self.pos, data)
        self.pos += len(data)
        return len(data)

    def truncate(self, size=None):
        if self.readonly:
            raise io.UnsupportedOperation("truncate")
        if size is None:
            size = self.pos
        if self.log is not None:
            self.log.append(("t", size, b""))
        _apply_truncate(self.buf, size)
        return size

    def flush(self):
        if self.log is not None and not self.readonly and not self.closed:
            self.log.append(("f", 0, b""))


def _apply_write(buf, pos, data):
    end = pos + len(data)
    if end > len(buf):
        buf.extend(b"\0" * (end - len(buf)))
    buf[pos:end] = data


def _apply_truncate(buf, size):
    if size < len(buf):
        del buf[size:]
    else:
        buf.extend(b"\0" * (size - len(buf)))


def image_from(initial, log, upto, torn=None):
    """Durable image: ``initial`` + first ``upto`` log entries; if ``torn`` is
    given, additionally the first ``torn`` bytes of entry ``upto`` (a write)."""
    buf = bytearray(initial)
    for kind, a, data in log[:upto]:
        if kind == "w":
            _apply_write(buf, a, data)
        elif kind == "t":
            _apply_truncate(buf, a)
    if torn is not None and upto < len(log) and log[upto][0] == "w":
        _, a, data = log[upto]
        _apply_write(buf, a, data[:torn])
    return bytes(buf)


class SoftDeath(BaseException):
    """The writer 'dies' by an uncaught exception / sys.exit at a mark: no
    application-level cleanup runs, but the interpreter shuts down in an
    orderly way."""


class SimDisk:
    """name -> durable bytes; per-file write logs; API-level marks."""

    def __init__(self):
        self.files = {}       # name -> bytes (content as of last close/sync)
        self.open_files = {}  # name -> (SimFile, initial bytes, log)
        self.logs = {}        # name -> list of completed (initial, log)
        self.marks = []       # (name, label, log position)
        self.removed = []
        self.temp_seq = 0
        self.mark_count = 0
        self.die_at = None    # raise SoftDeath at this mark (1-based)
        self.renames = []     # (src, dst, log position of an open src)
        self.readers = {}     # name -> weak references to open read handles

    def exists(self, name):
        return name in self.files or name in self.open_files

    def current_image(self, name):
        if name in self.open_files:
            return bytes(self.open_files[name][0].buf)
        return self.files[name]

    def live_readers(self, name):
        """Read handles of ``name`` that are still open (not closed and not
        garbage collected)."""
        import gc
        gc.collect()
        alive = []
        for ref in self.readers.get(name, []):
            h = ref()
            try:
                if h is not None and bool(h):
                    alive.append(ref)
            except Exception:  # noqa: BLE001
                pass
        self.readers[name] = alive
        return alive

    def mark(self, label):
        for name, (_, _, log) in self.open_files.items():
            self.marks.append((name, label, len(log)))
        self.mark_count += 1
        if self.die_at is not None and self.mark_count == self.die_at:
            raise SoftDeath(label)

    def interpreter_shutdown(self):
        """What h5py does when the interpreter exits (or the objects are
        collected) without the application closing its files: every open
        HDF5 handle is closed, which flushes it."""
        for name in list(self.open_files):
            fo = self.open_files[name][0]
            h = getattr(fo, "_h5", None)
            if h is not None:
                try:
                    h.close()
                except Exception:  # noqa: BLE001
                    pass
        self.sync_closed()

    def sync_closed(self):
        """Fold files whose h5py handle was closed into ``files``."""
        for name in list(self.open_files):
            fo, initial, log = self.open_files[name]
            if getattr(fo, "_h5_closed", lambda: False)():
                self.files[name] = bytes(fo.buf)
                self.logs.setdefault(name, []).append((initial, list(log)))
                del self.open_files[name]


class H5Shim(types.ModuleType):
    """Replacement for the h5py module inside oqupy.process_tensor."""

    def __init__(self, disk, real_h5py):
        super().__init__("h5py")
        self._disk = disk
        self._real = real_h5py

    def __getattr__(self, name):
        return getattr(self._real, name)

    def File(self, name, mode="r", *a, **kw):  # noqa: N802 - h5py API
        disk = self._disk
        disk.sync_closed()
        name = str(name)
        if mode in ("w", "a", "r+") and disk.live_readers(name):
            # HDF5 refuses to truncate / reopen for writing a file that is
            # still open (e.g. a reader object somebody keeps alive)
            raise OSError(
                "Unable to synchronously truncate a file which is already "
                "open: " + name)
        if name in disk.open_files and mode not in ("x", "w-"):
            # HDF5 file locking: a file another writer holds cannot be opened
            raise OSError(
                11, "Unable to synchronously open file (unable to lock file, "
                    "errno = 11, error message = 'Resource temporarily "
                    "unavailable')", name)
        if mode in ("w", "x", "w-"):
            if mode in ("x", "w-") and disk.exists(name):
                raise FileExistsError(
                    17, "Unable to synchronously create file (file exists)",
                    name)
            log = []
            fo = SimFile(b"", log=log)
            h = self._real.File(fo, "w", *a, **kw)
            initial = b""
            disk.files.pop(name, None)   # O_TRUNC happens at open
        elif mode in ("a", "r+"):
            if not disk.exists(name):
                if mode == "r+":
                    raise FileNotFoundError(2, "Unable to open file", name)
                log = []
                fo = SimFile(b"", log=log)
                h = self._real.File(fo, "w", *a, **kw)
                initial = b""
            else:
                initial = disk.current_image(name)
                log = []
                fo = SimFile(initial, log=log)
                h = self._real.File(fo, "r+", *a, **kw)
        elif mode == "r":
            if not disk.exists(name):
                raise FileNotFoundError(
                    2, "Unable to synchronously open file (unable to open "
                       "file: No such file or directory)", name)
            fo = SimFile(disk.current_image(name), readonly=True)
            h = self._real.File(fo, "r", *a, **kw)
            import weakref
            disk.readers.setdefault(name, []).append(weakref.ref(h))
            return h
        else:
            raise ValueError("Invalid mode; must be one of r, r+, w, w-, x, a")
        fo._h5_closed = lambda h=h: not bool(h)
        fo._h5 = h
        disk.open_files[name] = (fo, initial, log)
        return h


class _PathShim:
    def __init__(self, disk):
        self._disk = disk

    def __getattr__(self, name):
        return getattr(_os.path, name)

    def exists(self, p):
        self._disk.sync_closed()
        return self._disk.exists(str(p)) or _os.path.exists(p)

    def isfile(self, p):
        self._disk.sync_closed()
        return self._disk.exists(str(p)) or _os.path.isfile(p)


class OsShim(types.ModuleType):
    """Replacement for the os module inside oqupy.process_tensor."""

    def __init__(self, disk):
        super().__init__("os")
        self._disk = disk
        self.path = _PathShim(disk)

    def __getattr__(self, name):
        return getattr(_os, name)

    def remove(self, name):
        disk = self._disk
        disk.sync_closed()
        name = str(name)
        if name in disk.open_files:
            # unlinking an open file: the name disappears
            fo, initial, log = disk.open_files.pop(name)
            disk.removed.append(name)
            return
        if name not in disk.files:
            raise FileNotFoundError(2, "No such file or directory", name)
        del disk.files[name]
        disk.removed.append(name)

    unlink = remove

    def rename(self, src, dst):
        """os.rename / os.replace on the simulated disk (atomic)."""
        disk = self._disk
        disk.sync_closed()
        src, dst = str(src), str(dst)
        if not disk.exists(src):
            raise FileNotFoundError(2, "No such file or directory", src)
        disk.files.pop(dst, None)
        disk.open_files.pop(dst, None)
        pos = None
        if src in disk.open_files:
            pos = len(disk.open_files[src][2])
            disk.open_files[dst] = disk.open_files.pop(src)
        disk.renames.append((src, dst, pos))
        if src in disk.files:
            disk.files[dst] = disk.files.pop(src)
        if src in disk.logs:
            # the history of the name: what was there before, then the file
            # that now takes its place
            disk.logs[dst] = disk.logs.get(dst, []) + disk.logs.pop(src)
        disk.marks = [(dst if n == src else n, lab, pos)
                      for (n, lab, pos) in disk.marks]

    replace = rename


class TempfileShim(types.ModuleType):
    def __init__(self, disk):
        super().__init__("tempfile")
        self._disk = disk

    def __getattr__(self, name):
        return getattr(_tempfile, name)

    def _get_default_tempdir(self):
        return "/simtmp"

    def gettempdir(self):
        return "/simtmp"

    def _get_candidate_names(self):
        disk = self._disk

        def gen():
            while True:
                disk.temp_seq += 1
                yield "sim%06d" % disk.temp_seq
        return gen()

    def mktemp(self, suffix="", prefix="tmp", dir=None):
        self._disk.temp_seq += 1
        return "%s/%s%06d%s" % (dir or "/simtmp", prefix,
                                self._disk.temp_seq, suffix)


def install(disk):
    """Patch the storage seams of every loaded oqupy module (process_tensor
    has them today; a front end such as pt_tempo may grow its own ``os``)."""
    import sys
    import h5py
    import oqupy.process_tensor  # noqa: F401
    shims = {"h5py": (h5py, H5Shim(disk, h5py)),
             "os": (_os, OsShim(disk)),
             "tempfile": (_tempfile, TempfileShim(disk))}
    for modname, mod in list(sys.modules.items()):
        if not (modname == "oqupy" or modname.startswith("oqupy.")) \
                or mod is None:
            continue
        for attr, (real, shim) in shims.items():
            cur = getattr(mod, attr, None)
            if cur is real or isinstance(cur, (H5Shim, OsShim,
                                               TempfileShim)):
                setattr(mod, attr, shim)
    return h5py


def uninstall():
    """Give the oqupy modules their real h5py / os / tempfile back."""
    import sys
    import h5py
    for modname, mod in list(sys.modules.items()):
        if not (modname == "oqupy" or modname.startswith("oqupy.")) \
                or mod is None:
            continue
        if isinstance(getattr(mod, "h5py", None), H5Shim):
            mod.h5py = h5py
        if isinstance(getattr(mod, "os", None), OsShim):
            mod.os = _os
        if isinstance(getattr(mod, "tempfile", None), TempfileShim):
            mod.tempfile = _tempfile
