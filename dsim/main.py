"""Entry point: ``check <id> [--tier quick|thorough] [--replay file]``.

Exit 0: property held on everything explored (known findings printed).
Exit 1: ``VIOLATION property=<id> replay=<path>`` printed.
Exit 2: harness error (timeout, worker death, nondeterminism) - never a verdict.
"""
import os
import sys

# environment before numpy is imported anywhere
for _v in ("OMP_NUM_THREADS", "OPENBLAS_NUM_THREADS", "MKL_NUM_THREADS",
           "NUMEXPR_NUM_THREADS"):
    os.environ[_v] = "1"
os.environ.setdefault("OQUPY_VERIF", "1")

HERE = os.path.dirname(os.path.abspath(__file__))
VERIF = os.path.dirname(HERE)
if VERIF not in sys.path:
    sys.path.insert(0, VERIF)
OQUPY_SRC = os.environ.get("OQUPY_SRC", "/repo")
sys.path.insert(0, OQUPY_SRC)

import argparse  # noqa: E402
import hashlib  # noqa: E402
import importlib  # noqa: E402
import json  # noqa: E402
import random  # noqa: E402
import shutil  # noqa: E402
import subprocess  # noqa: E402
import tempfile  # noqa: E402
import time  # noqa: E402
import warnings  # noqa: E402

from dsim import core, runner  # noqa: E402

PROPS = {"C10": "c10", "C11": "c11", "C14": "c14", "C16": "c16",
         "C17": "c17", "C19": "c19", "C20": "c20"}

TIERS = {
    # max runs, budget seconds for issuing runs, per-run wall cap
    "quick": {"runs": 400, "budget": 60.0, "cap": 90.0},
    "thorough": {"runs": 200000, "budget": 900.0, "cap": 180.0},
}


def load_prop(pid):
    mod = importlib.import_module("dsim.props." + PROPS[pid])
    return mod


def repo_rev():
    try:
        rev = subprocess.run(["git", "-C", OQUPY_SRC, "rev-parse", "HEAD"],
                             capture_output=True, text=True,
                             timeout=20).stdout.strip()
        diff = subprocess.run(["git", "-C", OQUPY_SRC, "diff", "HEAD"],
                              capture_output=True, timeout=20).stdout
        return rev, hashlib.sha256(diff).hexdigest()[:16]
    except Exception:  # noqa: BLE001
        return "unknown", "unknown"


def assert_oqupy_source():
    import oqupy
    path = os.path.realpath(oqupy.__file__)
    want = os.path.realpath(OQUPY_SRC)
    if not path.startswith(want + os.sep):
        raise core.HarnessError("oqupy imported from %s, expected %s"
                                % (path, want))


# ---------------------------------------------------------------------------
# one run (executed in a forked child)

def _child_run(arg):
    """arg = dict(pid, mode, seed, index, tier | case, decisions)."""
    prop = load_prop(arg["pid"])
    warnings.simplefilter("ignore")
    if arg["mode"] == "generate":
        s_case = core.subseed(arg["seed"], arg["pid"], arg["index"], "case")
        s_dec = core.subseed(arg["seed"], arg["pid"], arg["index"], "sched")
        case = prop.gen_case(random.Random(s_case), arg["tier"])
        dec = core.Decider(seed=s_dec)
    else:
        case = arg["case"]
        dec = core.Decider(replay=arg["decisions"])
    t0 = time.monotonic()
    try:
        res = prop.run_case(case, dec)
    except core.HarnessError:
        raise
    except Exception as e:  # noqa: BLE001
        # An exception that escaped the property's own classification.  If it
        # passed through library code it is a failure of the library on a
        # history the reference handles (reported, replayable); if it never
        # touched the library it is a bug of the harness (exit 2).
        import traceback
        lib = os.path.realpath(OQUPY_SRC) + os.sep
        frames = [f for f in traceback.extract_tb(e.__traceback__)
                  if os.path.realpath(f.filename).startswith(lib)]
        if not frames:
            raise
        where = "%s:%s" % (os.path.basename(frames[-1].filename),
                           frames[-1].name)
        res = {
            "violations": [{
                "class": "unexpected_exception_in_library",
                "signature": "%s/%s" % (type(e).__name__, where),
                "detail": "%s in %s: %s" % (type(e).__name__, where,
                                            str(e)[:200])}],
            "notes": [], "digest": "sha256:" + hashlib.sha256(
                (type(e).__name__ + where).encode()).hexdigest()[:24],
            "events": 0, "sim_ms": 0, "outcomes": ["raised"], "probes": {},
            "faults_fired": {}, "nontrivial": False, "key": "raised"}
    res["wall"] = time.monotonic() - t0
    res["case"] = case
    res["ndecisions"] = len(dec.trace)
    h = hashlib.sha256(core.jdump(dec.trace).encode()).hexdigest()[:16]
    res["decision_digest"] = h
    if res.get("violations") or arg.get("want_decisions"):
        res["decisions"] = dec.trace
    return res


def replay_once(pid, case, decisions, cap):
    return runner.fork_call(_child_run, {
        "pid": pid, "mode": "replay", "case": case, "decisions": decisions,
        "want_decisions": True}, cap)


# ---------------------------------------------------------------------------
# known findings

def load_known():
    path = os.path.join(VERIF, "known_findings.json")
    try:
        with open(path) as f:
            return json.load(f)
    except FileNotFoundError:
        return []


def match_known(known, pid, viol):
    for k in known:
        if k.get("status") != "known" or k.get("property") != pid:
            continue
        key = k.get("key", {})
        if key.get("class") != viol.get("class"):
            continue
        ok = True
        for f, want in key.items():
            if f == "class":
                continue
            have = str(viol.get("fields", {}).get(f, viol.get(f, "")))
            if have not in str(want).split("|"):
                ok = False
                break
        if ok:
            return k
    return None


# ---------------------------------------------------------------------------
# minimisation

def minimise(pid, prop, case, decisions, vclass, cap, budget_tests=80,
             budget_wall_s=240.0):
    """Shrink (case, decisions) while the same violation class persists.
    Bounded in tests and in wall time (a long computation takes many seconds
    per attempt); what has been reached by then is reported."""
    tests = [0]
    t_end = time.monotonic() + budget_wall_s

    def fails(c, d):
        if time.monotonic() > t_end:
            return False          # out of time: keep what we have
        tests[0] += 1
        r = replay_once(pid, c, d, cap)
        return any(v.get("class") == vclass for v in r.get("violations", []))

    best_case, best_dec = case, decisions
    # 1. property-specific case shrinking (greedy to fixpoint)
    progress = True
    while progress and tests[0] < budget_tests // 2:
        progress = False
        for cand in getattr(prop, "shrink", lambda c: [])(best_case):
            if tests[0] >= budget_tests // 2:
                break
            if fails(cand, best_dec):
                best_case = cand
                progress = True
                break
    # 2. decision vector
    left = max(10, budget_tests - tests[0])
    best_dec = core.minimise_decisions(
        best_dec, lambda d: fails(best_case, d), max_tests=left)
    return best_case, best_dec, tests[0]


# ---------------------------------------------------------------------------

def write_replay(pid, prop, seed, index, case, decisions, viol, digest,
                 minimised_from=None, suffix=""):
    rev, dirty = repo_rev()
    d = os.path.join(VERIF, "evidence", "replays")
    os.makedirs(d, exist_ok=True)
    path = os.path.join(d, "%s-%d-%d%s.json" % (pid, seed, index, suffix))
    with open(path, "w") as f:
        json.dump({
            "format": 1, "property": pid,
            "engine": getattr(prop, "ENGINE", "?"),
            "oqupy_rev": rev, "oqupy_dirty": dirty, "seed": seed,
            "run_index": index, "case": case, "decisions": decisions,
            "violation": viol, "event_digest": digest,
            "minimised_from": minimised_from}, f, indent=1, sort_keys=True)
    return path


def do_replay(pid, path, cap=300.0):
    prop = load_prop(pid)
    if hasattr(prop, "prepare_worker"):
        prop.prepare_worker()
    assert_oqupy_source()
    with open(path) as f:
        rep = json.load(f)
    if rep["case"].get("static"):
        r = runner.fork_call(lambda a: prop.static_checks("quick", 0), None,
                             cap)
    else:
        r = replay_once(pid, rep["case"], rep["decisions"], cap)
    if "harness_error" in r:
        print("HARNESS-ERROR: " + r["harness_error"])
        return 2
    want = rep["violation"]["class"]
    got = [v for v in r.get("violations", []) if v["class"] == want]
    print("replay digest=%s recorded=%s" % (r.get("digest"),
                                            rep.get("event_digest")))
    if got:
        print("reproduced: %s %s" % (got[0]["class"], got[0].get("signature")))
        print("detail: " + str(got[0].get("detail")))
        print("VIOLATION property=%s replay=%s" % (pid, path))
        return 1
    print("not reproduced (violations now: %s)" % [
        v["class"] for v in r.get("violations", [])])
    return 0


def run_check(pid, tier, seed, budget=None, max_runs=None, quiet=False,
              no_minimise=False, write_evidence=True):
    t_start = time.monotonic()
    prop = load_prop(pid)
    cfg = dict(TIERS[tier])
    cfg.update(getattr(prop, "TIERS", {}).get(tier, {}))
    if budget is None and os.environ.get("VERIF_BUDGET_S"):
        budget = float(os.environ["VERIF_BUDGET_S"])
    if budget is not None:
        cfg["budget"] = budget
    if max_runs is None and os.environ.get("VERIF_MAX_RUNS"):
        max_runs = int(os.environ["VERIF_MAX_RUNS"])
    if max_runs is not None:
        cfg["runs"] = max_runs
    if hasattr(prop, "prepare_worker"):
        prop.prepare_worker()
    assert_oqupy_source()
    known = load_known()
    scratch = tempfile.mkdtemp(prefix="dsim-%s-" % pid)
    harness_errors = []
    extra = {}
    static_violations = []
    try:
        if hasattr(prop, "static_checks"):
            st = runner.fork_call(lambda a: prop.static_checks(tier, seed),
                                  None, cfg["cap"] * 2)
            if "harness_error" in st:
                harness_errors.append("static: " + st["harness_error"])
            else:
                extra["static"] = st.get("report", {})
                static_violations = st.get("violations", [])

        def make_arg(i):
            return {"pid": pid, "mode": "generate", "seed": seed, "index": i,
                    "tier": tier}
        results, herrs = runner.fan_out(
            _child_run, make_arg, cfg["runs"], cfg["budget"], scratch,
            wall_cap_s=cfg["cap"])
        harness_errors += herrs
        if hasattr(prop, "enumerated_cases"):
            # a finite sub-space the property module enumerates completely
            cases = prop.enumerated_cases(tier)

            def make_arg2(i):
                return {"pid": pid, "mode": "replay", "case": cases[i],
                        "decisions": []}
            res2, herrs2 = runner.fan_out(
                _child_run, make_arg2, len(cases), cfg["budget"] * 2,
                os.path.join(scratch, "enum"), wall_cap_s=cfg["cap"])
            for r in res2:
                r["_index"] += 10 ** 7
                r["enumerated"] = True
            if len(res2) != len(cases):
                harness_errors.append(
                    "enumeration incomplete: %d of %d cases ran" % (
                        len(res2), len(cases)))
            results += res2
            harness_errors += herrs2
            extra["enumerated_cases"] = len(cases)
    finally:
        shutil.rmtree(scratch, ignore_errors=True)

    if os.environ.get("VERIF_DUMP"):
        with open(os.environ["VERIF_DUMP"], "w") as f:
            for r in results:
                f.write(json.dumps(r) + "\n")
    ok_results = [r for r in results if "harness_error" not in r]
    for r in results:
        if "harness_error" in r:
            harness_errors.append("run %d: %s" % (r["_index"],
                                                  r["harness_error"][-1500:]))

    # -- classify violations
    new_violations = []   # (result, violation)
    known_seen = {}
    for r in ok_results:
        for v in r.get("violations", []):
            k = match_known(known, pid, v)
            if k is not None:
                known_seen.setdefault(k.get("id", k.get("what")), [k, 0])[1] += 1
            else:
                new_violations.append((r, v))
    for v in static_violations:
        k = match_known(known, pid, v)
        if k is not None:
            known_seen.setdefault(k.get("id", k.get("what")), [k, 0])[1] += 1
        else:
            new_violations.append((None, v))

    # -- report the first new violation of each class, minimised
    reported = []
    seen_classes = set()
    for r, v in new_violations:
        ck = (v["class"], v.get("signature"))
        if v["class"] in seen_classes:
            continue
        seen_classes.add(v["class"])
        if r is None:
            path = write_replay(pid, prop, seed, -1, {"static": True}, [], v,
                                None, suffix="-static")
            reported.append((path, v))
            continue
        full = write_replay(pid, prop, seed, r["_index"], r["case"],
                            r.get("decisions", []), v, r.get("digest"))
        path = full
        if not no_minimise:
            try:
                mc, md, nt = minimise(pid, prop, r["case"],
                                      r.get("decisions", []), v["class"],
                                      cfg["cap"])
                rr = replay_once(pid, mc, md, cfg["cap"])
                same = [x for x in rr.get("violations", [])
                        if x["class"] == v["class"]]
                if same:
                    path = write_replay(pid, prop, seed, r["_index"], mc, md,
                                        same[0], rr.get("digest"),
                                        minimised_from=os.path.basename(full),
                                        suffix="-min")
                    v = same[0]
            except Exception as e:  # noqa: BLE001
                harness_errors.append("minimiser: %r" % (e,))
        reported.append((path, v))
        if len(reported) >= 5:
            break

    wall = time.monotonic() - t_start
    # -- evidence
    ev = build_evidence(pid, prop, tier, seed, ok_results, wall, cfg,
                        len(new_violations), known_seen, harness_errors,
                        extra)
    if write_evidence:
        os.makedirs(os.path.join(VERIF, "evidence"), exist_ok=True)
        with open(os.path.join(VERIF, "evidence", pid + ".json"), "w") as f:
            json.dump(ev, f, indent=1, sort_keys=True)

    if not quiet:
        cov = ev["coverage"]
        print("%s tier=%s seed=%d runs=%d nontrivial_distinct=%d wall=%.1fs "
              "runs/h=%d harness_errors=%d" % (
                  pid, tier, seed, cov["evaluations"],
                  cov["distinct_nontrivial"], wall,
                  cov.get("runs_per_hour", 0), len(harness_errors)))
    for kid, (k, n) in sorted(known_seen.items()):
        print("KNOWN-FINDING: property=%s %s (%s; seen %d times)" % (
            pid, k.get("what"), kid, n))
    for path, v in reported:
        print("violation class=%s signature=%s" % (v["class"],
                                                   v.get("signature")))
        print("  detail: %s" % str(v.get("detail"))[:400])
        print("VIOLATION property=%s replay=%s" % (pid, path))
    if harness_errors:
        for h in harness_errors[:3]:
            print("HARNESS-ERROR: " + h[-700:].replace("\n", "\n    "))
        if len(harness_errors) > 3:
            print("HARNESS-ERROR: ... %d more" % (len(harness_errors) - 3))
    if reported:
        return 1
    if harness_errors or not ok_results:
        return 2
    return 0


def build_evidence(pid, prop, tier, seed, results, wall, cfg, nviol,
                   known_seen, harness_errors, extra):
    keys = {}
    probes = {}
    faults = {}
    events = 0
    sim_ms = 0
    digests = set()
    for r in results:
        if r.get("nontrivial"):
            keys[r.get("key", "?")] = keys.get(r.get("key", "?"), 0) + 1
            digests.add(r.get("digest"))
        for k, n in (r.get("probes") or {}).items():
            probes[k] = probes.get(k, 0) + n
        for k, n in (r.get("faults_fired") or {}).items():
            faults[k] = faults.get(k, 0) + n
        events += r.get("events", 0)
        sim_ms += r.get("sim_ms", 0)
    samples = []
    for r in results[:3]:
        samples.append({"case": r.get("case"), "outcome": r.get("outcomes"),
                        "events": r.get("events"), "digest": r.get("digest"),
                        "violations": r.get("violations")})
    cov = {
        "evaluations": len(results),
        "distinct_nontrivial": len(digests),
        "rule": getattr(prop, "RULE", ""),
        "samples": samples,
        "runs_per_hour": int(len(results) / max(wall, 1e-9) * 3600),
        "sim_seconds": sim_ms / 1000.0,
        "events": events,
        "faults_fired": faults,
        "probes": probes,
        "case_classes": keys,
        "known_findings_seen": {k: n for k, (_, n) in known_seen.items()},
        "harness_errors": len(harness_errors),
        "components": getattr(prop, "COMPONENTS", {}),
        "exhaustive": False,
    }
    if hasattr(prop, "summarize"):
        cov.update(prop.summarize(results))
    cov.update(extra)
    rev, dirty = repo_rev()
    return {
        "property_id": pid, "tier": tier, "seed": seed,
        "level": getattr(prop, "LEVEL", "exploration"),
        "coverage": cov,
        "assumptions": getattr(prop, "ASSUMPTIONS", []),
        "wall_s": round(wall, 2),
        "violations": nviol,
        "oqupy_rev": rev, "oqupy_dirty": dirty,
        "budget_s": cfg["budget"], "max_runs": cfg["runs"],
    }


def main(argv=None):
    ap = argparse.ArgumentParser()
    ap.add_argument("pid")
    ap.add_argument("--tier", default=os.environ.get("VERIF_TIER", "quick"),
                    choices=["quick", "thorough"])
    ap.add_argument("--replay")
    ap.add_argument("--budget", type=float)
    ap.add_argument("--runs", type=int)
    ap.add_argument("--no-minimise", action="store_true")
    ap.add_argument("--no-evidence", action="store_true")
    a = ap.parse_args(argv)
    if a.pid == "selftest":
        from dsim import selftest
        return selftest.main(a.tier, PROPS)
    if a.pid not in PROPS:
        print("unknown property " + a.pid)
        return 2
    seed = int(os.environ.get("VERIF_SEED", "0"))
    try:
        if a.replay:
            return do_replay(a.pid, a.replay)
        return run_check(a.pid, a.tier, seed, budget=a.budget,
                         max_runs=a.runs, no_minimise=a.no_minimise,
                         write_evidence=not a.no_evidence)
    except core.HarnessError as e:
        print("HARNESS-ERROR: %s" % e)
        return 2


if __name__ == "__main__":
    sys.exit(main())
