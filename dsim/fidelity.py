"""Cross-checks with the *real* components the simulator replaces.

* real_timer_cases(): run a library call in a fresh interpreter with the real
  threading.Timer / clock / stdout, optionally with an injected failure, and
  look at threading.enumerate() and at the output stream 1.3 s after the call
  ended.  (C19)
* real_kill_cases(): run a writer in a fresh interpreter on a real file with
  the real HDF5 file driver, SIGKILL it after the k-th tensor was written, and
  open the file with the real reader.  (C17)

They are part of static_checks of C19 / C17: a real thread alive after the
call, or a really killed writer's file opening silently incomplete, is a
violation like any other; a disagreement between what the real component shows
and what the stub showed for the same workload is reported as a harness error.
"""
import json
import os
import subprocess
import sys
import tempfile

_TIMER_SNIPPET = r'''
import sys, os, io, threading, time
os.environ["OMP_NUM_THREADS"] = "1"
sys.path.insert(0, %(src)r)
import warnings; warnings.simplefilter("ignore")
import numpy as np
import oqupy
assert os.path.realpath(oqupy.__file__).startswith(os.path.realpath(%(src)r))
case = %(case)r
o = oqupy.operators
class Boom(Exception): pass
calls = [0]
armed = [False]
def ham(t):
    calls[0] += 1
    if armed[0] and case["fault"] == "hamiltonian" and t > case["at"]:
        raise Boom()
    return 0.5 * o.sigma("x") * np.cos(t)
def eom(t, states, a):
    if armed[0] and case["fault"] == "field_eom" and t > case["at"]:
        raise Boom()
    return -0.1 * a
def hamf(t, a):
    return 0.2 * o.sigma("z") + 0.1 * (np.conj(a) * o.sigma("-") + a * o.sigma("+"))
bath = oqupy.Bath(0.5 * o.sigma("z"), oqupy.PowerLawSD(0.1, 1.0, 3.0))
pars = oqupy.TempoParameters(dt=0.1, epsrel=1e-4, dkmax=2)
pt = oqupy.pt_tempo_compute(bath, 0.0, 0.45, pars, progress_type="silent")
class Rec(io.TextIOBase):
    def __init__(self): self.stamps = []
    def writable(self): return True
    def write(self, s): self.stamps.append(time.monotonic()); return len(s)
rec = Rec(); real = sys.stdout; sys.stdout = rec
outcome = "returned"
try:
    api = case["api"]
    if api == "compute_dynamics":
        tds = oqupy.TimeDependentSystem(ham)
        armed[0] = True
        oqupy.compute_dynamics(tds, o.spin_dm("up"),
                               process_tensor=pt, subdiv_limit=None)
    elif api == "with_field":
        mfs = oqupy.MeanFieldSystem([oqupy.TimeDependentSystemWithField(hamf)], eom)
        armed[0] = True
        oqupy.compute_dynamics_with_field(mfs, 1.0 + 0j, process_tensor_list=[pt],
                                          initial_state_list=[o.spin_dm("up")],
                                          subdiv_limit=None)
    elif api == "gradient":
        def hp(x): return 0.5 * x * o.sigma("x")
        def target(rho):
            if case["fault"] == "target": raise Boom()
            return o.spin_dm("x+").T
        oqupy.state_gradient(system=oqupy.ParameterizedSystem(hp),
                             initial_state=o.spin_dm("up"), target_derivative=target,
                             process_tensors=[pt], parameters=np.ones((8, 1)))
    elif api == "tempo":
        t = oqupy.Tempo(oqupy.TimeDependentSystem(ham), bath, pars, o.spin_dm("up"), 0.0)
        armed[0] = True
        t.compute(0.45)
except Boom:
    outcome = "raised"
end = time.monotonic()
# deterministic: a Timer that is alive and not cancelled right after the call
armed_timers = [t.name for t in threading.enumerate()
                if isinstance(t, threading.Timer) and not t.finished.is_set()]
time.sleep(1.3)
sys.stdout = real
alive = [t.name for t in threading.enumerate() if t is not threading.main_thread()]
late = len([s for s in rec.stamps if s > end + 0.05])
print("RESULT " + __import__("json").dumps({"outcome": outcome, "alive": alive, "late_writes": late, "armed_timers": armed_timers}))
sys.stdout.flush()
os._exit(0)
'''

TIMER_CASES = [
    {"api": "compute_dynamics", "fault": None, "at": 0},
    {"api": "compute_dynamics", "fault": "hamiltonian", "at": 0.15},
    {"api": "with_field", "fault": "field_eom", "at": 0.15},
    {"api": "gradient", "fault": "target", "at": 0},
    {"api": "tempo", "fault": "hamiltonian", "at": 0.15},
]


def real_timer_cases(src, cases=None):
    """Returns (violations, report)."""
    violations, report = [], {}
    procs = []
    for case in cases or TIMER_CASES:
        code = _TIMER_SNIPPET % {"src": src, "case": case}
        procs.append((case, subprocess.Popen(
            [sys.executable, "-c", code], stdout=subprocess.PIPE,
            stderr=subprocess.PIPE, text=True, cwd="/",
            env=dict(os.environ, PYTHONPATH=""))))
    for case, p in procs:
        key = "%s/%s" % (case["api"], case["fault"])
        try:
            out, err = p.communicate(timeout=120)
        except subprocess.TimeoutExpired:
            p.kill()
            report[key] = "timeout"
            violations.append({
                "class": "real_interpreter_cannot_exit",
                "signature": "real-timer/" + key,
                "detail": "fresh interpreter with the real Timer did not "
                          "finish within 120 s"})
            continue
        line = [x for x in out.splitlines() if x.startswith("RESULT ")]
        if not line:
            report[key] = "no result: " + (err.strip().splitlines() or ["?"])[-1][:200]
            continue
        res = json.loads(line[0][7:])
        report[key] = res
        if res["alive"] or res["late_writes"] or res["armed_timers"]:
            violations.append({
                "class": "real_thread_alive_after_call",
                "signature": "real-timer/" + key,
                "detail": "with the real threading.Timer: 1.3 s after the "
                          "call %s, threads %s are alive and the stream was "
                          "written %d times; un-cancelled Timer threads "
                          "right after the call: %s" % (
                              res["outcome"], res["alive"],
                              res["late_writes"], res["armed_timers"])})
    return violations, report


_KILL_SNIPPET = r'''
import sys, os, signal
os.environ["OMP_NUM_THREADS"] = "1"
sys.path.insert(0, %(src)r)
sys.path.insert(0, %(verif)r)
import warnings; warnings.simplefilter("ignore")
import oqupy, oqupy.process_tensor as ptm
from dsim.props import c17
case = %(case)r
kill_at = %(kill_at)d
count = [0]
orig = ptm._set_data_and_shape
def counting(step, data, shape, tensor):
    r = orig(step, data, shape, tensor)
    count[0] += 1
    if count[0] == kill_at:
        os.kill(os.getpid(), signal.SIGKILL)
    if count[0] == -kill_at:
        raise RuntimeError("writer fails here (uncaught)")
    return r
ptm._set_data_and_shape = counting
pt = c17.build_simple_pt(case)
pt.export(%(path)r)
print("COMPLETED", count[0])
'''


def real_kill_cases(src, verif, ncases=2):
    """SIGKILL a real writer after the k-th tensor; open with the reader."""
    import warnings
    sys.path.insert(0, src)
    import oqupy.process_tensor as ptm
    from .props import c17
    from . import simdisk
    simdisk.uninstall()   # this part uses real files
    violations, report = [], {}
    cases = [
        {"kind": "export", "n": 3, "d": 2, "chi": 3, "rank": 4, "dt": 0.1,
         "transforms": False, "caps": True, "named": True, "tseed": 11},
        {"kind": "export", "n": 4, "d": 2, "chi": 30, "rank": 4, "dt": None,
         "transforms": True, "caps": True, "named": False, "tseed": 12},
    ][:ncases]
    tmp = tempfile.mkdtemp(prefix="dsim-kill-")
    try:
        for ci, case in enumerate(cases):
            ref = c17.snapshot(c17.build_simple_pt(case))
            nsets = 1 + case["n"] + case["n"] + 1   # initial + mpos + caps
            outcomes = {}
            # k > 0: SIGKILL after the k-th tensor; k < 0: the writer ends by
            # an uncaught exception there (orderly interpreter shutdown);
            # k = 0: normal completion
            soft = [-2, -(nsets - 1)] if nsets > 3 else [-1]
            for k in list(range(1, nsets + 1)) + soft + [0]:
                path = os.path.join(tmp, "c%d-k%d.hdf5" % (ci, k))
                code = _KILL_SNIPPET % {"src": src, "verif": verif,
                                        "case": case, "kill_at": k,
                                        "path": path}
                p = subprocess.run([sys.executable, "-c", code],
                                   capture_output=True, text=True, timeout=120,
                                   cwd="/", env=dict(os.environ,
                                                     PYTHONPATH=""))
                killed = p.returncode < 0
                if k == 0 and "COMPLETED" not in p.stdout:
                    report["case%d" % ci] = "writer failed: " + \
                        (p.stderr.strip().splitlines() or ["?"])[-1][:200]
                    break
                with warnings.catch_warnings(record=True) as w:
                    warnings.simplefilter("always")
                    try:
                        q = ptm.import_process_tensor(path, "simple")
                        warned = any("corrupt" in str(x.message).lower()
                                     for x in w)
                        diffs = c17.observe(q, ref, None)
                        res = "warned" if warned else (
                            "complete" if not diffs else "silent-incomplete")
                    except Exception as e:  # noqa: BLE001
                        res = "fails:" + type(e).__name__
                label = "clean" if k == 0 else (
                    "kill@%d" % k if k > 0 else "exception@%d" % -k)
                outcomes[label] = res
                if res == "silent-incomplete":
                    violations.append({
                        "class": "silent_incomplete_after_crash" if k > 0
                        else "silent_incomplete_after_writer_exit",
                        "signature": "real-%s/export" % (
                            "kill" if k > 0 else "exception"),
                        "detail": "a real writer %s after its %d-th "
                                  "tensor left a file that opens without "
                                  "warning but %s differ" % (
                                      "SIGKILLed" if k > 0 else
                                      "ended by an uncaught exception",
                                      abs(k), diffs[:5])})
                if k == 0 and res != "complete":
                    violations.append({
                        "class": "closed_file_incomplete",
                        "signature": "real-kill/export",
                        "detail": "a real, normally closed file reads back "
                                  "as: " + res})
                if k > 0 and not killed:
                    outcomes[label] += " (writer was not killed)"
                try:
                    os.remove(path)
                except OSError:
                    pass
            report["case%d" % ci] = outcomes
    finally:
        import shutil
        shutil.rmtree(tmp, ignore_errors=True)
    return violations, report


_FULL_DISK_SNIPPET = r"""
import sys, os, signal, resource
os.environ["OMP_NUM_THREADS"] = "1"
sys.path.insert(0, %(src)r)
sys.path.insert(0, %(verif)r)
import warnings; warnings.simplefilter("ignore")
import oqupy, oqupy.process_tensor as ptm
from dsim.props import c17
from dsim import models
case = %(case)r
limit = %(limit)d
if case["kind"] == "export":
    pt = c17.build_simple_pt(case)
else:
    bath = models.make_bath(case["coupling"], alpha=case["alpha"])
    pars = oqupy.TempoParameters(dt=0.1, epsrel=case["epsrel"],
                                 dkmax=case["dkmax"])
if limit:
    # the file system refuses to let the file grow beyond ``limit`` bytes
    # (EFBIG: the behaviour of a full disk / quota for this one file); the
    # last permitted write is cut short
    signal.signal(signal.SIGXFSZ, signal.SIG_IGN)
    resource.setrlimit(resource.RLIMIT_FSIZE, (limit, limit))
if case["kind"] == "export":
    pt.export(%(path)r)
else:
    ptt = oqupy.PtTempo(bath, 0.0, (case["steps"] + 0.5) * 0.1, pars,
                        process_tensor_file=%(path)r)
    ptt.compute(progress_type="silent")
    ptt.get_process_tensor(progress_type="silent").close()
print("COMPLETED")
"""


def real_full_disk_cases(src, verif, tier="quick"):
    """A real writer on a real file that the OS stops from growing beyond L
    bytes (RLIMIT_FSIZE, SIGXFSZ ignored): writes past L fail with EFBIG -
    the one crossing L is cut short - while writes below L still succeed,
    so the surviving image is *not* a prefix of the write sequence.  The
    writer dies by the resulting uncaught exception (or inside HDF5's
    shutdown); the file is then opened by the real reader."""
    import warnings
    sys.path.insert(0, src)
    import oqupy
    import oqupy.process_tensor as ptm
    from .props import c17
    from . import simdisk, models
    simdisk.uninstall()
    violations, report = [], {}
    cases = [
        {"kind": "export", "n": 4, "d": 2, "chi": 30, "rank": 4, "dt": None,
         "transforms": True, "caps": True, "named": False, "tseed": 12},
        {"kind": "pt_tempo_file", "coupling": "x", "alpha": 0.2,
         "epsrel": 1e-6, "dkmax": 3, "steps": 6},
        {"kind": "export", "n": 3, "d": 2, "chi": 3, "rank": 3, "dt": 0.1,
         "transforms": False, "caps": True, "named": True, "tseed": 11},
    ]
    if tier == "quick":
        cases = cases[:2]
    tmp = tempfile.mkdtemp(prefix="dsim-full-")
    try:
        for ci, case in enumerate(cases):
            path = os.path.join(tmp, "c%d.hdf5" % ci)

            def writer(limit, path=path):
                if os.path.exists(path):
                    os.remove(path)
                code = _FULL_DISK_SNIPPET % {
                    "src": src, "verif": verif, "case": case,
                    "limit": limit, "path": path}
                return subprocess.run(
                    [sys.executable, "-c", code], capture_output=True,
                    text=True, timeout=180, cwd="/",
                    env=dict(os.environ, PYTHONPATH="",
                             PYTHONDONTWRITEBYTECODE="1"))
            p = writer(0)
            if "COMPLETED" not in p.stdout:
                report["case%d" % ci] = "writer failed: " + (
                    p.stderr.strip().splitlines() or ["?"])[-1][:200]
                continue
            size = os.path.getsize(path)
            with warnings.catch_warnings():
                warnings.simplefilter("ignore")
                q = ptm.import_process_tensor(path, "simple")
            ref = c17.snapshot(q)
            n = 6 if tier == "quick" else 24
            limits = sorted({96, 2048, size - 1, size - 97, size - 2049}
                            | {max(97, (size * i) // (n + 1))
                               for i in range(1, n + 1)})
            limits = [x for x in limits if 0 < x < size]
            # the writers are independent processes on files of their own:
            # run them side by side (the outcome of each depends on its
            # limit only), then read the files one by one
            from concurrent.futures import ThreadPoolExecutor
            paths = {lim: os.path.join(tmp, "c%d-L%d.hdf5" % (ci, lim))
                     for lim in limits}
            with ThreadPoolExecutor(8) as ex:
                procs = dict(zip(limits, ex.map(
                    lambda lim: writer(lim, paths[lim]), limits)))
            outcomes = {}
            for lim in limits:
                p = procs[lim]
                lpath = paths[lim]
                died = "COMPLETED" not in p.stdout
                if not os.path.exists(lpath):
                    outcomes[str(lim)] = "no file"
                    continue
                with warnings.catch_warnings(record=True) as w:
                    warnings.simplefilter("always")
                    try:
                        q = ptm.import_process_tensor(lpath, "simple")
                        warned = any("corrupt" in str(x.message).lower()
                                     for x in w)
                        diffs = c17.observe(q, ref, None)
                        res = "warned" if warned else (
                            "complete" if not diffs else "silent-incomplete")
                    except Exception as e:  # noqa: BLE001
                        res = "fails:" + type(e).__name__
                        diffs = []
                outcomes[str(lim)] = res + ("" if died else
                                            " (writer completed)")
                if res == "silent-incomplete":
                    violations.append({
                        "class": "silent_incomplete_after_disk_full",
                        "signature": "real-full-disk/" + case["kind"],
                        "detail": "a real writer whose file could not grow "
                                  "beyond %d of %d bytes %s; the file opens "
                                  "without warning but %s differ" % (
                                      lim, size,
                                      "died" if died else "reported success",
                                      diffs[:5])})
                try:
                    os.remove(lpath)
                except OSError:
                    pass
            report["case%d(%s,%dB)" % (ci, case["kind"], size)] = outcomes
    finally:
        import shutil
        shutil.rmtree(tmp, ignore_errors=True)
    return violations, report
