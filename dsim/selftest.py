"""Determinism self-test: same seed => same runs, in fresh interpreters, under
different PYTHONHASHSEED and worker counts.  A mismatch is a harness error.

usage:  ./check selftest [--tier quick|thorough]      (all engines)
        SELFTEST_PROPS=C19,C17 ./check selftest
"""
import json
import os
import subprocess
import sys
import tempfile

HERE = os.path.dirname(os.path.abspath(__file__))
VERIF = os.path.dirname(HERE)

FIELDS = ("digest", "decision_digest", "ndecisions", "events", "key")


def _run(pid, n, hashseed, workers, seed, out):
    env = dict(os.environ)
    env.update({"PYTHONHASHSEED": str(hashseed), "VERIF_WORKERS": str(workers),
                "VERIF_SEED": str(seed), "VERIF_DUMP": out})
    p = subprocess.run(
        [os.path.join(VERIF, "check"), pid, "--runs", str(n), "--budget",
         "600", "--no-evidence", "--no-minimise"],
        env=env, capture_output=True, text=True, timeout=1800)
    rows = {}
    with open(out) as f:
        for line in f:
            r = json.loads(line)
            rows[r["_index"]] = r
    return p.returncode, rows


def compare(pid, n, seed=0):
    configs = [(0, 16), (1, 1 if n <= 8 else 3), (7, 16)]
    runs = []
    with tempfile.TemporaryDirectory(prefix="dsim-selftest-") as d:
        for i, (hs, w) in enumerate(configs):
            rc, rows = _run(pid, n, hs, w, seed, os.path.join(d, "o%d" % i))
            runs.append((hs, w, rc, rows))
    base = runs[0][3]
    mism = []
    for hs, w, rc, rows in runs[1:]:
        if set(rows) != set(base):
            mism.append("%s: index sets differ (%d vs %d)" % (
                pid, len(rows), len(base)))
            continue
        for i in sorted(base):
            a, b = base[i], rows[i]
            if "harness_error" in a or "harness_error" in b:
                mism.append("%s run %d: harness error" % (pid, i))
                continue
            for f in FIELDS:
                if a.get(f) != b.get(f):
                    mism.append("%s run %d: %s differs under PYTHONHASHSEED=%d"
                                " workers=%d: %r vs %r" % (
                                    pid, i, f, hs, w, a.get(f), b.get(f)))
            va = sorted(v["class"] for v in a.get("violations", []))
            vb = sorted(v["class"] for v in b.get("violations", []))
            if va != vb:
                mism.append("%s run %d: verdict differs: %r vs %r" % (
                    pid, i, va, vb))
    return len(base), mism


def main(tier="quick", all_props=None):
    props = os.environ.get("SELFTEST_PROPS")
    if props:
        props = props.split(",")
    else:
        props = [p for p in sorted(all_props)
                 if os.path.exists(os.path.join(HERE, "props",
                                                all_props[p] + ".py"))]
    n = int(os.environ.get("SELFTEST_N", "64" if tier == "quick" else "400"))
    bad = 0
    for pid in props:
        cnt, mism = compare(pid, n)
        print("selftest %s: %d runs x 3 configurations, %d mismatches" % (
            pid, cnt, len(mism)))
        for m in mism[:10]:
            print("  MISMATCH " + m)
        bad += len(mism)
    return 2 if bad else 0


if __name__ == "__main__":
    sys.exit(main())
