"""Create a mutant patch from textual replacements.

usage (python): mk(name, prop, descr, [(relpath, old, new), ...])
"""
import difflib
import os

VERIF = os.path.dirname(os.path.dirname(os.path.abspath(__file__)))


def mk(name, prop, descr, edits, root="/repo"):
    out = ["# property: %s" % prop, "# %s" % descr]
    by_file = {}
    for rel, old, new in edits:
        by_file.setdefault(rel, []).append((old, new))
    for rel, reps in by_file.items():
        src = open(os.path.join(root, rel)).read()
        dst = src
        for old, new in reps:
            assert dst.count(old) == 1, (name, rel, old[:40], dst.count(old))
            dst = dst.replace(old, new)
        diff = difflib.unified_diff(
            src.splitlines(True), dst.splitlines(True),
            "a/" + rel, "b/" + rel)
        out.append("".join(diff).rstrip("\n"))
    path = os.path.join(VERIF, "selftest", "mutants", name + ".patch")
    with open(path, "w") as f:
        f.write("\n".join(out) + "\n")
    return path
