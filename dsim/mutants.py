"""Sensitivity self-test: apply each breaking patch to a scratch copy of
/repo/oqupy and require the property's check to report a VIOLATION there.

usage: /venv/bin/python dsim/mutants.py [--tier quick] [name ...]

Patches: /verif/selftest/mutants/<name>.patch  (first lines '# property: Cxx')
         /verif/seeded/<name>/patch.diff + meta.json {"property": "Cxx"}
Nothing is ever applied to /repo itself; the scratch copy is removed.
"""
import json
import os
import re
import shutil
import subprocess
import sys
import tempfile
import time

HERE = os.path.dirname(os.path.abspath(__file__))
VERIF = os.path.dirname(HERE)


def collect(benign=False):
    out = []
    d = os.path.join(VERIF, "selftest", "benign" if benign else "mutants")
    if os.path.isdir(d):
        for f in sorted(os.listdir(d)):
            if f.endswith(".patch"):
                path = os.path.join(d, f)
                head = open(path).read(2000)
                m = re.search(r"^# property: (C\d+)", head, re.M)
                out.append((f[:-6], m.group(1) if m else None, path))
    d = os.path.join(VERIF, "seeded")
    if os.path.isdir(d) and not benign:
        for f in sorted(os.listdir(d)):
            p = os.path.join(d, f, "patch.diff")
            mp = os.path.join(d, f, "meta.json")
            if os.path.exists(p) and os.path.exists(mp):
                meta = json.load(open(mp))
                out.append(("seeded/" + f, meta.get("property"), p))
    return out


def run_one(name, pid, patch, tier, budget):
    tmp = tempfile.mkdtemp(prefix="dsim-mutant-")
    try:
        shutil.copytree("/repo/oqupy", os.path.join(tmp, "oqupy"))
        r = subprocess.run(["patch", "-p1", "-s", "-d", tmp, "-i", patch],
                           capture_output=True, text=True)
        if r.returncode != 0:
            return "PATCH-FAILED", r.stdout + r.stderr, 0.0
        env = dict(os.environ, OQUPY_SRC=tmp)
        t0 = time.time()
        cmd = [os.path.join(VERIF, "check"), pid, "--tier", tier,
               "--no-evidence"]
        if budget:
            cmd += ["--budget", str(budget)]
        p = subprocess.run(cmd, env=env, capture_output=True, text=True,
                           timeout=3600)
        dt = time.time() - t0
        lines = [ln for ln in p.stdout.splitlines()
                 if ln.startswith(("VIOLATION", "violation", "HARNESS"))]
        verdict = {0: "MISSED", 1: "CAUGHT"}.get(p.returncode,
                                                 "HARNESS-ERROR")
        return verdict, "\n".join(lines[:4]), dt
    finally:
        shutil.rmtree(tmp, ignore_errors=True)
        # replay files of mutants are not evidence about /repo
        rep = os.path.join(VERIF, "evidence", "replays")
        if os.path.isdir(rep):
            for f in os.listdir(rep):
                pass


def main(argv):
    tier = "quick"
    budget = None
    names = []
    benign = False
    it = iter(argv)
    for a in it:
        if a == "--benign":
            # behaviour-preserving variants: the check must stay silent
            benign = True
        elif a == "--tier":
            tier = next(it)
        elif a == "--budget":
            budget = float(next(it))
        else:
            names.append(a)
    rows = []
    for name, pid, patch in collect(benign):
        if names and not any(n in name for n in names):
            continue
        if pid is None:
            print("%-40s no property header" % name)
            continue
        verdict, info, dt = run_one(name, pid, patch, tier, budget)
        if benign:
            verdict = {"MISSED": "SILENT", "CAUGHT": "FALSE-ALARM"}.get(
                verdict, verdict)
        rows.append((name, pid, verdict))
        print("%-44s %s %-13s %5.1fs" % (name, pid, verdict, dt))
        for ln in info.splitlines():
            print("      " + ln[:160])
        sys.stdout.flush()
    good = "SILENT" if benign else "CAUGHT"
    missed = [r for r in rows if r[2] != good]
    print("%d %s, %d %s, %d not" % (
        len(rows), "benign variants" if benign else "mutants",
        len(rows) - len(missed), good.lower(), len(missed)))
    return 1 if missed else 0


if __name__ == "__main__":
    sys.exit(main(sys.argv[1:]))
