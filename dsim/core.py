"""Core of the deterministic simulator: decisions, event log, seeds.

Everything a run decides goes through ``Decider.choose``; one integer
(VERIF_SEED) therefore decides everything, and a recorded decision vector is a
complete replay of a run.  Value 0 is by construction the "boring" choice
(keep running the current thread, advance no time, inject nothing), which is
what makes minimisation by truncation / zeroing possible: a replayed vector
that is shorter than the run simply continues with zeros.

Nothing in here reads a clock or draws outside ``choose``; floats never enter
the event log (see DESIGN.md 2.8).
"""
import hashlib
import json
import random


class InjectedFault(Exception):
    """The exception raised by fault-injecting wrappers of user callables."""


class HarnessError(Exception):
    """Something is wrong with the simulator itself (never a verdict)."""


def subseed(*parts) -> int:
    """Derive a 63-bit seed from a tuple of ints/strings (pure function)."""
    h = hashlib.sha256(repr(tuple(parts)).encode()).digest()
    return int.from_bytes(h[:8], "big") >> 1


class Decider:
    """Source of every choice of a run (generate or replay mode)."""

    def __init__(self, seed=None, replay=None):
        self.replay = None if replay is None else [int(x[1]) for x in replay]
        self.rng = random.Random(seed) if replay is None else None
        self.pos = 0
        self.trace = []  # [kind, value]

    def choose(self, kind, n, weights=None):
        """Return an int in [0, n).  No decision is recorded when n <= 1."""
        if n <= 1:
            return 0
        if self.replay is not None:
            v = self.replay[self.pos] if self.pos < len(self.replay) else 0
            self.pos += 1
            v = v % n
        elif weights is not None:
            total = float(sum(weights[:n]))
            x = self.rng.random() * total
            acc = 0.0
            v = n - 1
            for i in range(n):
                acc += weights[i]
                if x < acc:
                    v = i
                    break
        else:
            v = self.rng.randrange(n)
        self.trace.append([kind, v])
        return v

    def flip(self, kind, p):
        """Bernoulli decision; 0/False is the boring outcome."""
        return self.choose(kind, 2, [1.0 - p, p]) == 1


class EventLog:
    """Append-only log of plain (str/int/bool/None) tuples."""

    def __init__(self, cap=200000):
        self.events = []
        self.cap = cap

    def ev(self, *a):
        for x in a:
            if isinstance(x, float):
                raise HarnessError("float in event log: %r" % (a,))
        self.events.append(a)
        if len(self.events) > self.cap:
            raise HarnessError("event cap exceeded")

    def digest(self):
        h = hashlib.sha256()
        for e in self.events:
            h.update(repr(e).encode())
            h.update(b"\n")
        return "sha256:" + h.hexdigest()[:24]

    def __len__(self):
        return len(self.events)


def jdump(obj):
    return json.dumps(obj, sort_keys=True, separators=(",", ":"))


def stable_hash(obj) -> str:
    return hashlib.sha256(jdump(obj).encode()).hexdigest()[:16]


# ---------------------------------------------------------------------------
# generic minimisation helpers (property modules supply the case shrinkers)

def ddmin_list(items, still_fails, max_tests=60):
    """Classic delta debugging on a list whose every sub-list is a valid input.

    ``still_fails(sublist) -> bool``.  Returns a 1-minimal-ish sub-list within
    the test budget.
    """
    tests = [0]

    def test(x):
        tests[0] += 1
        return still_fails(x)

    n = 2
    items = list(items)
    while len(items) >= 2 and tests[0] < max_tests:
        chunk = max(1, len(items) // n)
        subsets = [items[i:i + chunk] for i in range(0, len(items), chunk)]
        reduced = False
        for i in range(len(subsets)):
            if tests[0] >= max_tests:
                break
            complement = [x for j, s in enumerate(subsets) if j != i for x in s]
            if complement != items and test(complement):
                items = complement
                n = max(n - 1, 2)
                reduced = True
                break
        if not reduced:
            if n >= len(items):
                break
            n = min(len(items), n * 2)
    if len(items) == 1 and tests[0] < max_tests and test([]):
        items = []
    return items


def minimise_decisions(decisions, still_fails, max_tests=60):
    """Shrink a decision vector: truncate from the tail, then zero chunks."""
    tests = [0]

    def test(d):
        tests[0] += 1
        return still_fails(d)

    best = [list(x) for x in decisions]
    # 1. truncation (past-the-end decisions replay as 0)
    cut = len(best) // 2
    while cut >= 1 and tests[0] < max_tests:
        cand = best[:len(best) - cut]
        if test(cand):
            best = cand
            cut = min(cut, len(best) // 2)
        else:
            cut //= 2
    # 2. zero chunks
    chunk = max(1, len(best) // 4)
    while chunk >= 1 and tests[0] < max_tests:
        i = 0
        progressed = False
        while i < len(best) and tests[0] < max_tests:
            seg = best[i:i + chunk]
            if any(v for _, v in seg):
                cand = best[:i] + [[k, 0] for k, _ in seg] + best[i + chunk:]
                if test(cand):
                    best = cand
                    progressed = True
            i += chunk
        if chunk == 1 and not progressed:
            break
        chunk //= 2
    # strip trailing zeros (equivalent by construction)
    while best and best[-1][1] == 0:
        best.pop()
    return best
