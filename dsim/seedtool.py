"""Confirm a seeded breaking change in a scratch worktree and file it.

usage: /venv/bin/python dsim/seedtool.py <src dir with patch.diff demo.py notes.md> <name> <property> [--no-suite]

Steps (all in the scratch git worktree the change was written in, /tmp/...; the
worktree is reset afterwards and removed by the caller):
  1. demo on the clean tree must pass (exit 0)
  2. patch applies; demo must fail (exit != 0)
  3. the pinned baseline suite must pass with the patch
Then copies patch.diff, demo.py, notes.md to /verif/seeded/<name>/ and writes meta.json.
"""
import json
import os
import shutil
import subprocess
import sys
import tempfile
import time

VERIF = os.path.dirname(os.path.dirname(os.path.abspath(__file__)))


def sh(cmd, cwd=None, timeout=3600, env=None):
    p = subprocess.run(cmd, cwd=cwd, capture_output=True, text=True,
                       timeout=timeout, env=env)
    return p.returncode, (p.stdout + p.stderr)


def main(argv):
    src, name, prop = argv[:3]
    suite = "--no-suite" not in argv
    # the demos address the scratch worktree they were written in, so the
    # confirmation runs there: <worktree>/out/<change>/ is src
    wt = os.path.dirname(os.path.dirname(os.path.abspath(src)))
    assert wt.startswith("/tmp/") and os.path.exists(os.path.join(wt, ".git"))
    rc, out = sh(["git", "checkout", "--", "."], cwd=wt)
    assert rc == 0, out
    rc, out = sh(["git", "status", "--short", "--untracked-files=no"], cwd=wt)
    assert out.strip() == "", "worktree not clean: " + out
    meta = {"property": prop, "name": name, "ran": []}
    try:
        demo = os.path.join(src, "demo.py")
        env = dict(os.environ, PYTHONPATH=wt, OMP_NUM_THREADS="1")
        is_pytest = "def test_" in open(demo).read() and \
            "__main__" not in open(demo).read()
        cmd = ["/venv/bin/python", "-m", "pytest", "-q", "-p",
               "no:cacheprovider", demo] if is_pytest else \
            ["/venv/bin/python", demo]
        t0 = time.time()
        rc_clean, out_clean = sh(cmd, cwd=wt, timeout=900, env=env)
        meta["ran"].append({"what": "demo on clean tree", "exit": rc_clean,
                            "seconds": round(time.time() - t0, 1)})
        rc, out = sh(["git", "apply", os.path.join(src, "patch.diff")],
                     cwd=wt)
        assert rc == 0, "patch does not apply: " + out
        t0 = time.time()
        rc_patched, out_patched = sh(cmd, cwd=wt, timeout=900, env=env)
        meta["ran"].append({"what": "demo with patch", "exit": rc_patched,
                            "seconds": round(time.time() - t0, 1),
                            "tail": out_patched.strip().splitlines()[-3:]})
        suite_ok = None
        if suite:
            t0 = time.time()
            rc_s, out_s = sh(
                ["/venv/bin/python", "-m", "pytest", "-q", "-p",
                 "no:cacheprovider", "--timeout=900",
                 "--continue-on-collection-errors"], cwd=wt, timeout=3600,
                env=dict(os.environ, OMP_NUM_THREADS="1"))
            last = out_s.strip().splitlines()[-1]
            suite_ok = rc_s == 0 and "101 passed" in last
            meta["ran"].append({"what": "baseline suite with patch",
                                "exit": rc_s, "summary": last,
                                "seconds": round(time.time() - t0, 1)})
        ok = rc_clean == 0 and rc_patched != 0 and suite_ok is not False
        meta["confirmed"] = ok
        print("%s: clean=%d patched=%d suite=%s -> %s" % (
            name, rc_clean, rc_patched, suite_ok,
            "CONFIRMED" if ok else "REJECTED"))
        if not ok:
            print(out_clean[-600:] if rc_clean else "")
            return 1
        dst = os.path.join(VERIF, "seeded", name)
        os.makedirs(dst, exist_ok=True)
        for f in ("patch.diff", "demo.py", "notes.md"):
            if os.path.exists(os.path.join(src, f)):
                shutil.copy(os.path.join(src, f), os.path.join(dst, f))
        notes = os.path.join(src, "notes.md")
        meta["needs"] = open(notes).read()[:1500] if os.path.exists(notes) \
            else ""
        with open(os.path.join(dst, "meta.json"), "w") as f:
            json.dump(meta, f, indent=1)
        return 0
    finally:
        sh(["git", "checkout", "--", "."], cwd=wt)


if __name__ == "__main__":
    sys.exit(main(sys.argv[1:]))
