"""Simulated concurrent.futures executors on top of the baton scheduler.

``SimThreadPool`` runs every submitted task as a baton thread of the active
``Sim`` (so tasks interleave with each other, and with the submitting thread,
only at recorded decisions).  ``SimProcessPool`` runs every task in a *forked
child process* with arguments and results crossing the boundary as pickles —
real isolation, but the completion order is a recorded decision.
"""
import os
import pickle

from . import simsched
from .core import HarnessError


class _Future:
    def __init__(self, idx):
        self.idx = idx
        self.done = False
        self.result_value = None
        self.exception = None

    def result(self, timeout=None):
        if self.exception is not None:
            raise self.exception
        return self.result_value


class SimPoolBase:
    kind = "thread"

    def __init__(self, max_workers=None, *a, **k):
        sim = simsched.SIM
        self.sim = sim
        self.futures = []
        self.shut = False
        self.seq = len(sim.pools)
        sim.pools.append(self)
        sim.ev("pool-new", self.kind, self.seq)

    def __enter__(self):
        return self

    def __exit__(self, *a):
        self.shutdown(wait=True)
        return False

    def map(self, fn, *iterables, timeout=None, chunksize=1):
        futs = [self.submit(fn, *args) for args in zip(*iterables)]

        def result_iterator():
            for f in futs:
                self._wait([f])
                yield f.result()
        return result_iterator()

    def shutdown(self, wait=True, cancel_futures=False):
        if wait:
            self._wait(self.futures)
        self.shut = True
        self.sim.ev("pool-shutdown", self.kind, self.seq)


class SimThreadPool(SimPoolBase):
    kind = "thread"

    def submit(self, fn, *args, **kwargs):
        if self.shut:
            raise RuntimeError("cannot schedule new futures after shutdown")
        sim = self.sim
        fut = _Future(len(self.futures))
        self.futures.append(fut)
        name = "p%dt%d" % (self.seq, fut.idx)
        fut.name = name

        def run():
            try:
                fut.result_value = fn(*args, **kwargs)
            except BaseException as e:  # noqa: BLE001 - delivered via future
                fut.exception = e
            finally:
                fut.done = True
                sim.ev("task-done", name)
        sim.ev("task-submit", name)
        sim.spawn(name, run)
        return fut

    def _wait(self, futs):
        sim = self.sim
        guard = 0
        while any(not f.done for f in futs):
            guard += 1
            if guard > 100000:
                raise HarnessError("pool wait does not terminate")
            me = sim.current
            others = sim._candidates(me)
            if not others:
                raise HarnessError("pool tasks pending but nothing runnable")
            k = sim.dec.choose("next", len(others))
            sim._switch_to(others[k], "pool.wait")


class SimProcessPool(SimPoolBase):
    kind = "process"

    def submit(self, fn, *args, **kwargs):
        if self.shut:
            raise RuntimeError("cannot schedule new futures after shutdown")
        fut = _Future(len(self.futures))
        self.futures.append(fut)
        # what a real pool does at submit: pickle the work item
        fut.payload = pickle.dumps((fn, args, kwargs))
        self.sim.ev("task-submit", "p%dx%d" % (self.seq, fut.idx))
        return fut

    def _run_one(self, fut):
        r, w = os.pipe()
        pid = os.fork()
        if pid == 0:
            try:
                os.close(r)
                simsched.SIM.active = False
                try:
                    fn, args, kwargs = pickle.loads(fut.payload)
                    out = ("ok", fn(*args, **kwargs))
                except BaseException as e:  # noqa: BLE001
                    out = ("exc", e)
                try:
                    data = pickle.dumps(out)
                except BaseException as e:  # noqa: BLE001
                    data = pickle.dumps(("exc", RuntimeError(
                        "result not picklable: %r" % (e,))))
                with os.fdopen(w, "wb") as f:
                    f.write(data)
            finally:
                os._exit(0)
        os.close(w)
        with os.fdopen(r, "rb") as f:
            data = f.read()
        os.waitpid(pid, 0)
        if not data:
            fut.exception = RuntimeError("worker process died")
        else:
            tag, val = pickle.loads(data)
            if tag == "ok":
                fut.result_value = val
            else:
                fut.exception = val
        fut.done = True

    def _wait(self, futs):
        sim = self.sim
        pending = [f for f in self.futures if not f.done]
        # completion order of the worker processes is a decision
        while any(not f.done for f in futs):
            k = sim.dec.choose("complete", len(pending))
            f = pending.pop(k)
            sim.ev("task-done", "p%dx%d" % (self.seq, f.idx))
            self._run_one(f)
