"""Simulated concurrent.futures executors on top of the baton scheduler.

``SimThreadPool`` runs every submitted task as a baton thread of the active
``Sim`` (so tasks interleave with each other, and with the submitting thread,
only at recorded decisions).  ``SimProcessPool`` runs every task in a *forked
child process* with arguments and results crossing the boundary as pickles —
real isolation, but the completion order is a recorded decision.
"""
import os
import pickle

from . import simsched
from .core import HarnessError


class _Future:
    """The part of concurrent.futures.Future that callers use."""

    def __init__(self, idx, pool=None):
        self.idx = idx
        self.pool = pool
        self.is_done = False
        self.done_seq = None
        self.result_value = None
        self.exc = None
        self.callbacks = []

    def _finish(self):
        self.is_done = True
        sim = simsched.SIM
        sim.done_counter = getattr(sim, "done_counter", 0) + 1
        self.done_seq = sim.done_counter
        for cb in self.callbacks:
            cb(self)

    def done(self):
        return self.is_done

    def running(self):
        return not self.is_done

    def cancelled(self):
        return False

    def cancel(self):
        return False

    def add_done_callback(self, fn):
        if self.is_done:
            fn(self)
        else:
            self.callbacks.append(fn)

    def result(self, timeout=None):
        if not self.is_done:
            self.pool._wait([self])
        if self.exc is not None:
            raise self.exc
        return self.result_value

    def exception(self, timeout=None):
        if not self.is_done:
            self.pool._wait([self])
        return self.exc


def sim_as_completed(fs, timeout=None):
    """concurrent.futures.as_completed on simulated futures."""
    pending = list(fs)
    while pending:
        ready = sorted([f for f in pending if f.is_done],
                       key=lambda f: f.done_seq)
        if not ready:
            pending[0].pool._wait_any(pending)
            continue
        for f in ready:
            pending.remove(f)
            yield f


class _DoneAndNotDone(tuple):
    done = property(lambda self: self[0])
    not_done = property(lambda self: self[1])


def sim_wait(fs, timeout=None, return_when="ALL_COMPLETED"):
    fs = list(fs)
    if return_when == "ALL_COMPLETED":
        for f in fs:
            if not f.is_done:
                f.pool._wait([f])
    else:
        if fs and not any(f.is_done for f in fs):
            fs[0].pool._wait_any(fs)
    return _DoneAndNotDone(({f for f in fs if f.is_done},
                            {f for f in fs if not f.is_done}))


class SimPoolBase:
    kind = "thread"

    def __init__(self, max_workers=None, *a, **k):
        if max_workers is not None and max_workers <= 0:
            # concurrent.futures raises exactly this
            raise ValueError("max_workers must be greater than 0")
        sim = simsched.SIM
        self.sim = sim
        self.futures = []
        self.shut = False
        self.seq = len(sim.pools)
        sim.pools.append(self)
        sim.ev("pool-new", self.kind, self.seq)

    def __enter__(self):
        return self

    def __exit__(self, *a):
        self.shutdown(wait=True)
        return False

    def map(self, fn, *iterables, timeout=None, chunksize=1):
        futs = [self.submit(fn, *args) for args in zip(*iterables)]

        def result_iterator():
            for f in futs:
                self._wait([f])
                yield f.result()
        return result_iterator()

    def shutdown(self, wait=True, cancel_futures=False):
        if wait:
            self._wait(self.futures)
        else:
            self.sim.probe("shutdown_without_wait")
        self.shut = True
        self.sim.ev("pool-shutdown", self.kind, self.seq)


class SimThreadPool(SimPoolBase):
    kind = "thread"

    def submit(self, fn, *args, **kwargs):
        if self.shut:
            raise RuntimeError("cannot schedule new futures after shutdown")
        sim = self.sim
        fut = _Future(len(self.futures), self)
        self.futures.append(fut)
        name = "p%dt%d" % (self.seq, fut.idx)
        fut.name = name

        def run():
            try:
                fut.result_value = fn(*args, **kwargs)
            except BaseException as e:  # noqa: BLE001 - delivered via future
                fut.exc = e
            finally:
                sim.ev("task-done", name)
                fut._finish()
        sim.ev("task-submit", name)
        if getattr(sim, "stall_index", None) == fut.idx:
            sim.stalled.add(name)   # a slow worker: runs when nobody else can
        sim.spawn(name, run)
        return fut

    def _wait_any(self, futs):
        self._wait(futs, any_of=True)

    def _forced_order(self):
        """Enumerated mode: the tasks of this pool complete in the k-th
        permutation (lexicographic) of their submission order."""
        import itertools
        import math
        k = getattr(self.sim, "perm_index", None)
        n = len(self.futures)
        if k is None or n == 0:
            return None
        perms = itertools.permutations(range(n))
        return list(next(itertools.islice(perms, k % math.factorial(n),
                                          None)))

    def _wait(self, futs, any_of=False):
        sim = self.sim
        order = self._forced_order()
        if order is not None:
            for i in order:
                f = self.futures[i]
                while not f.is_done:
                    sim._switch_to(f.name, "pool.forced")
                if any_of and any(x.is_done for x in futs):
                    return
            return
        guard = 0
        while (not any(f.is_done for f in futs)) if any_of else \
                any(not f.is_done for f in futs):
            guard += 1
            if guard > 100000:
                raise HarnessError("pool wait does not terminate")
            me = sim.current
            others = sim._candidates(me)
            if not others:
                raise HarnessError("pool tasks pending but nothing runnable")
            k = sim.dec.choose("next", len(others))
            sim._switch_to(others[k], "pool.wait")


class SimProcessPool(SimPoolBase):
    kind = "process"

    def submit(self, fn, *args, **kwargs):
        if self.shut:
            raise RuntimeError("cannot schedule new futures after shutdown")
        fut = _Future(len(self.futures), self)
        self.futures.append(fut)
        # what a real pool does at submit: pickle the work item
        fut.payload = pickle.dumps((fn, args, kwargs))
        self.sim.ev("task-submit", "p%dx%d" % (self.seq, fut.idx))
        return fut

    def _run_one(self, fut):
        r, w = os.pipe()
        pid = os.fork()
        if pid == 0:
            try:
                os.close(r)
                simsched.SIM.active = False
                try:
                    fn, args, kwargs = pickle.loads(fut.payload)
                    out = ("ok", fn(*args, **kwargs))
                except BaseException as e:  # noqa: BLE001
                    out = ("exc", e)
                try:
                    data = pickle.dumps(out)
                except BaseException as e:  # noqa: BLE001
                    data = pickle.dumps(("exc", RuntimeError(
                        "result not picklable: %r" % (e,))))
                with os.fdopen(w, "wb") as f:
                    f.write(data)
            finally:
                os._exit(0)
        os.close(w)
        with os.fdopen(r, "rb") as f:
            data = f.read()
        os.waitpid(pid, 0)
        if not data:
            fut.exc = RuntimeError("worker process died")
        else:
            tag, val = pickle.loads(data)
            if tag == "ok":
                fut.result_value = val
            else:
                fut.exc = val
        fut._finish()

    def _wait_any(self, futs):
        self._wait(futs, any_of=True)

    def _wait(self, futs, any_of=False):
        sim = self.sim
        pending = [f for f in self.futures if not f.is_done]
        order = SimThreadPool._forced_order(self)
        if order is not None:
            pending = [self.futures[i] for i in order
                       if not self.futures[i].is_done]
        # completion order of the worker processes is a decision
        while (not any(f.is_done for f in futs)) if any_of else \
                any(not f.is_done for f in futs):
            k = 0 if order is not None else \
                sim.dec.choose("complete", len(pending))
            f = pending.pop(k)
            sim.ev("task-done", "p%dx%d" % (self.seq, f.idx))
            self._run_one(f)


def install_executors(module=None):
    """Rebind the executor seams (globally and, where a module imported the
    names directly, in that module)."""
    import concurrent.futures as cf
    repl = {"ThreadPoolExecutor": SimThreadPool,
            "ProcessPoolExecutor": SimProcessPool,
            "as_completed": sim_as_completed, "wait": sim_wait}
    for name, obj in repl.items():
        setattr(cf, name, obj)
        if module is not None and hasattr(module, name):
            setattr(module, name, obj)
