"""Fork-per-run execution, worker fan-out, wall caps.

Every simulated run executes in a child forked from a single-threaded worker
that has imported OQuPy but never executed it (memo caches pristine).  A child
that times out or dies is a *harness error*, never a verdict.
"""
import faulthandler
import json
import os
import select
import signal
import sys
import time
import traceback


def fork_call(fn, arg, wall_cap_s):
    """Run fn(arg) in a forked child; return its JSON-able result dict.

    On timeout / crash returns {"harness_error": "..."}.
    """
    r, w = os.pipe()
    sys.stdout.flush()
    sys.stderr.flush()
    pid = os.fork()
    if pid == 0:
        code = 0
        try:
            os.close(r)
            os.setpgrp()   # so that a timeout can kill helpers it forked too
            faulthandler.dump_traceback_later(max(1.0, wall_cap_s - 0.5),
                                              exit=False, file=sys.stderr)
            try:
                res = fn(arg)
            except BaseException:  # noqa: BLE001
                res = {"harness_error": "exception in run:\n"
                       + traceback.format_exc()[-4000:]}
            faulthandler.cancel_dump_traceback_later()
            data = json.dumps(res).encode()
            off = 0
            while off < len(data):
                off += os.write(w, data[off:off + 65536])
            os.close(w)
        except BaseException:  # noqa: BLE001
            code = 3
        finally:
            os._exit(code)
    os.close(w)
    chunks = []
    deadline = time.monotonic() + wall_cap_s
    timed_out = False
    while True:
        left = deadline - time.monotonic()
        if left <= 0:
            timed_out = True
            break
        rl, _, _ = select.select([r], [], [], min(left, 1.0))
        if rl:
            b = os.read(r, 1 << 16)
            if not b:
                break
            chunks.append(b)
    os.close(r)
    if timed_out:
        for killer in (os.killpg, os.kill):
            try:
                killer(pid, signal.SIGKILL)
            except (ProcessLookupError, PermissionError):
                pass
        os.waitpid(pid, 0)
        return {"harness_error": "run exceeded wall cap of %.0fs" % wall_cap_s}
    _, status = os.waitpid(pid, 0)
    data = b"".join(chunks)
    if not data:
        return {"harness_error": "child died without result (status %d)"
                % status}
    try:
        return json.loads(data)
    except ValueError:
        return {"harness_error": "child result not JSON"}


def _worker(widx, nworkers, first, max_runs, deadline, run_fn, make_arg,
            out_path, wall_cap_s):
    with open(out_path, "w") as out:
        i = first + widx
        while i < first + max_runs:
            if time.monotonic() > deadline:
                break
            res = fork_call(run_fn, make_arg(i), wall_cap_s)
            res["_index"] = i
            out.write(json.dumps(res) + "\n")
            out.flush()
            i += nworkers


def fan_out(run_fn, make_arg, max_runs, budget_s, scratch, nworkers=None,
            wall_cap_s=120.0, first=0):
    """Run indices first..first+max_runs-1 on nworkers forked workers.

    Stops issuing new runs after budget_s.  Returns (results, harness_errors).
    Results are sorted by index, so aggregation does not depend on which
    worker ran what.
    """
    if nworkers is None:
        nworkers = int(os.environ.get("VERIF_WORKERS", "0")) or min(
            16, os.cpu_count() or 1)
    nworkers = max(1, min(nworkers, max_runs))
    os.makedirs(scratch, exist_ok=True)
    deadline = time.monotonic() + budget_s
    pids = []
    paths = []
    sys.stdout.flush()
    sys.stderr.flush()
    for w in range(nworkers):
        path = os.path.join(scratch, "w%d.jsonl" % w)
        paths.append(path)
        pid = os.fork()
        if pid == 0:
            code = 0
            try:
                _worker(w, nworkers, first, max_runs, deadline, run_fn,
                        make_arg, path, wall_cap_s)
            except BaseException:  # noqa: BLE001
                traceback.print_exc()
                code = 4
            finally:
                os._exit(code)
        pids.append(pid)
    hard = deadline + wall_cap_s + 30
    herrs = []
    for pid in pids:
        while True:
            p, status = os.waitpid(pid, os.WNOHANG)
            if p:
                if status != 0:
                    herrs.append("worker exited with status %d" % status)
                break
            if time.monotonic() > hard:
                os.kill(pid, signal.SIGKILL)
                os.waitpid(pid, 0)
                herrs.append("worker killed at hard deadline")
                break
            time.sleep(0.05)
    results = []
    for path in paths:
        try:
            with open(path) as f:
                for line in f:
                    line = line.strip()
                    if line:
                        results.append(json.loads(line))
        except FileNotFoundError:
            herrs.append("worker output missing: " + path)
        try:
            os.remove(path)
        except OSError:
            pass
    results.sort(key=lambda r: r["_index"])
    return results, herrs
