"""C19 - no computation leaves background activity behind.

Engine: simsched (virtual clock, simulated threading.Timer, baton threads,
sys.monitoring pre-emption inside oqupy.util) + simexec for PT-TEBD pools.
See DESIGN.md 4.1 and Appendix A.
"""
import concurrent.futures
import sys
import threading
import time as _time
import types
import warnings

import numpy as np

from .. import simsched, simexec, models
from ..core import InjectedFault, HarnessError
from ..simsched import Sim, MAIN

ID = "C19"
LEVEL = "exploration"
ENGINE = "simsched"

APIS = ["compute_dynamics", "compute_dynamics_with_field", "gradient",
        "tempo", "mean_field_tempo", "pt_tempo", "gibbs_tempo", "pt_tebd",
        "correlations", "bath_dynamics"]
PROGRESS = [None, "bar", "simple", "silent"]
HORIZON_MS = 5000

_real_timer = threading.Timer


class TimerSeam:
    """threading.Timer replacement installed before ``import oqupy``."""

    def __new__(cls, *a, **k):
        if simsched.SIM is not None:
            return simsched.SimTimer(*a, **k)
        return _real_timer(*a, **k)


# ---------------------------------------------------------------------------
# case generation

def _pick(rng, seq, weights=None):
    if weights is None:
        return seq[rng.randrange(len(seq))]
    return rng.choices(seq, weights=weights, k=1)[0]


FAULTS_BY_API = {
    "compute_dynamics": ["hamiltonian", "gamma", "lindblad", "cap", "shape",
                         "control"],
    "compute_dynamics_with_field": ["hamiltonian", "field_eom", "gamma",
                                    "cap", "shape", "control"],
    "gradient": ["hamiltonian", "target", "prop_derivative", "cap", "shape",
                 "gamma", "lindblad"],
    "tempo": ["hamiltonian", "gamma", "lindblad"],
    "mean_field_tempo": ["hamiltonian", "field_eom"],
    "pt_tempo": ["spectral_density"],
    "gibbs_tempo": ["spectral_density"],
    "pt_tebd": ["pt_raises", "pt_short", "shape", "gate_task"],
    "correlations": ["hamiltonian", "cap", "shape"],
    "bath_dynamics": ["hamiltonian", "cap", "shape"],
}


def gen_case(rng, tier="quick"):
    api = _pick(rng, APIS, [4, 4, 4, 2, 2, 2, 2, 3, 2, 1])
    progress = _pick(rng, PROGRESS, [3, 4, 1, 1])
    steps = rng.randrange(2, 7)
    case = {"api": api, "progress": progress, "steps": steps,
            "pt": _pick(rng, ["z", "x"]), "npts": _pick(rng, [1, 1, 2]),
            "calls": 1, "fault": None}
    if api in ("tempo", "mean_field_tempo", "pt_tebd", "gibbs_tempo",
               "pt_tempo", "bath_dynamics") and rng.random() < 0.4:
        case["calls"] = 2
    if api == "pt_tebd":
        case["parallel"] = _pick(rng, [None, "multithread", "multiprocess"],
                                 [2, 3, 1])
        case["sites"] = rng.randrange(2, 5)
        case["steps"] = rng.randrange(2, 5)
    if api == "gradient":
        case["target_callable"] = rng.random() < 0.5
        case["steps"] = rng.randrange(2, 5)
    if api == "compute_dynamics_with_field":
        case["nsys"] = _pick(rng, [1, 2])
    if api in ("compute_dynamics", "compute_dynamics_with_field", "tempo",
               "mean_field_tempo", "pt_tempo", "gibbs_tempo") \
            and rng.random() < 0.05:
        # a long computation: many progress updates, many timer generations
        case["steps"] = rng.randrange(40, 131 if tier == "quick" else 300)
        if api in ("tempo", "pt_tempo", "gibbs_tempo", "mean_field_tempo"):
            # every evaluation of the spectral density is a yield point
            # there: keep the event log bounded
            case["steps"] = rng.randrange(33, 70)
    # the convenience front ends run the same progress scopes
    case["shortcut"] = api in ("tempo", "pt_tempo", "gibbs_tempo",
                               "correlations") and rng.random() < 0.35
    if case["shortcut"]:
        case["calls"] = 1
    if api == "pt_tebd" and rng.random() < 0.15:
        case["float_end_step"] = True     # compute(4.0): accepted by int()
    if rng.random() < 0.08:
        # the output stream breaks (closed pipe): every write from the k-th
        # on raises, in whichever thread it happens
        case["fault"] = {"kind": "stream", "k": rng.randrange(1, 12)}
    elif rng.random() < 0.7:
        kind = _pick(rng, FAULTS_BY_API[api])
        fault = {"kind": kind}
        n = case["steps"]
        if kind in ("cap", "shape", "pt_raises", "pt_short", "gate_task"):
            fault["k"] = rng.randrange(0, n)
        elif kind == "control":
            # an input rejected midway: a control operation whose shape
            # does not fit, applied before (pre) or after (post) the record
            fault["k"] = rng.randrange(0, n + 1)
            fault["post"] = bool(rng.randrange(2))
        elif kind in ("hamiltonian", "gamma", "lindblad", "field_eom"):
            if api in ("gradient", "correlations", "bath_dynamics"):
                fault["mode"] = "call"
                fault["n"] = rng.randrange(1, 4 * n + 1)
            else:
                fault["mode"] = "step"
                fault["k"] = rng.randrange(0, n)
        elif kind in ("spectral_density", "prop_derivative"):
            fault["mode"] = "call"
            fault["n"] = int(round(10 ** rng.uniform(0, 3.5)))
        fault["exc"] = _pick(rng, ["exception", "value_error", "interrupt"],
                             [5, 2, 2])
        case["fault"] = fault
    if rng.random() < 0.25:
        # one exactly placed pre-emption (see simsched.DirectedSchedule)
        case["directed"] = [rng.randrange(0, 40 + 25 * case["steps"]),
                            rng.randrange(0, 30),
                            _pick(rng, ["end", "update"])]
    case["sched"] = {
        "p_switch": _pick(rng, [0.0, 0.05, 0.2, 0.5, 0.8], [1, 2, 3, 3, 1]),
        "p_clock": _pick(rng, [0.0, 0.1, 0.3, 0.6], [1, 2, 3, 2]),
        "jw": _pick(rng, [[0, 3, 2, 2, 4, 1], [0, 1, 1, 1, 6, 2],
                          [0, 6, 3, 2, 1, 0], [0, 0, 0, 1, 1, 1]]),
    }
    if api in ("compute_dynamics", "compute_dynamics_with_field", "tempo",
               "mean_field_tempo", "gradient") and case["steps"] < 33 \
            and rng.random() < 0.12:
        # a second thread of the caller runs another library call at the
        # same time (two progress reporters alive at once, entered and left
        # in whatever order the schedule decides)
        case["concurrent"] = {"steps": rng.randrange(2, 7),
                              "progress": _pick(rng, PROGRESS, [3, 4, 1, 1])}
    if case["steps"] >= 33 and case["sched"]["p_switch"] > 0.05:
        case["sched"]["p_switch"] = 0.05     # bounded event log
    return case


def shrink(case):
    """Smaller variants of a case (tried in order by the minimiser)."""
    out = []
    if case.get("concurrent"):
        c = dict(case); c.pop("concurrent"); out.append(c)
    if case.get("calls", 1) > 1:
        c = dict(case); c["calls"] = 1; out.append(c)
    if case.get("directed"):
        i, j, v = case["directed"]
        if v == "update":
            out.append(dict(case, directed=[i, j, "end"]))
    if case["steps"] > 12:
        c = dict(case); c["steps"] = case["steps"] // 2
        if c.get("fault") and "k" in c["fault"]:
            c["fault"] = dict(c["fault"]); c["fault"]["k"] = min(
                c["fault"]["k"], c["steps"] - 1)
        out.append(c)
    if case["steps"] > 2:
        c = dict(case); c["steps"] = case["steps"] - 1
        if c.get("fault") and "k" in c["fault"]:
            c["fault"] = dict(c["fault"]); c["fault"]["k"] = min(
                c["fault"]["k"], c["steps"] - 1)
        out.append(c)
    if case.get("npts", 1) > 1:
        c = dict(case); c["npts"] = 1; out.append(c)
    if case.get("fault") and case["fault"].get("k", 0) > 0:
        c = dict(case); c["fault"] = dict(case["fault"]); c["fault"]["k"] -= 1
        out.append(c)
    if case.get("fault") and case["fault"].get("n", 1) > 1:
        c = dict(case); c["fault"] = dict(case["fault"])
        c["fault"]["n"] = max(1, case["fault"]["n"] // 2)
        out.append(c)
    if case.get("sites", 2) > 2:
        c = dict(case); c["sites"] -= 1; out.append(c)
    if case.get("nsys", 1) > 1:
        c = dict(case); c["nsys"] = 1; out.append(c)
    return out


# ---------------------------------------------------------------------------
# environment

_LIB = {}


def prepare_worker():
    """Called once in the (single-threaded) worker before any fork-per-run."""
    if threading.Timer is not TimerSeam:
        threading.Timer = TimerSeam
    import oqupy  # noqa: F401
    warnings.simplefilter("ignore")
    if not _LIB:
        # process tensors are pure data here: computed once, inherited by fork
        _LIB["z"] = models.make_pt("z", steps=6, dkmax=3)
        _LIB["x"] = models.make_pt("x", steps=6, dkmax=3)
        _LIB["z2"] = models.make_pt("z", steps=6, dkmax=2, alpha=0.05)
        for n in (2, 3, 4):
            # the gradient API takes the number of steps from the tensor
            for c in ("z", "x"):
                _LIB["%s-%d" % (c, n)] = models.make_pt(c, steps=n, dkmax=2)
            _LIB["z2-%d" % n] = models.make_pt("z", steps=n, dkmax=2,
                                                alpha=0.05)


class _Env:
    pass


def _install(sim):
    """Put every seam under the simulator's control (in the forked child)."""
    import oqupy
    import oqupy.util as U
    import oqupy.backends.pt_tebd_backend as B
    env = _Env()
    simsched.install(sim)
    threading.Timer = TimerSeam
    # oqupy.util seams, whichever way the module spells them
    for nm, repl in (("Timer", simsched.SimTimer), ("Lock", simsched.SimLock),
                     ("RLock", simsched.SimRLock),
                     ("Event", simsched.SimEvent),
                     ("Thread", simsched.SimThread)):
        if hasattr(U, nm):
            setattr(U, nm, repl)
    if isinstance(getattr(U, "threading", None), types.ModuleType):
        U.threading = simsched.ThreadingShim()
    if isinstance(getattr(U, "time", None), types.ModuleType):
        shim = types.ModuleType("time")
        shim.__dict__.update(_time.__dict__)
        shim.time = sim.clock
        shim.monotonic = sim.clock
        shim.perf_counter = sim.clock
        shim.sleep = lambda s: sim.wait_until(lambda: False, s, "time.sleep")
        U.time = shim
    else:
        U.time = sim.clock
    if callable(getattr(U, "sleep", None)):
        U.sleep = lambda s: sim.wait_until(lambda: False, s, "time.sleep")
    simexec.install_executors(B)
    # locks / events that the modules created when they were imported
    env.adopted = simsched.adopt_module_sync(U) \
        + simsched.adopt_module_sync(B)
    env.stream = simsched.RecordingStream(sim)
    env.real_stdout = sys.stdout
    sys.stdout = env.stream
    progress_codes = set(simsched.code_objects_of(U, classes_only=True))
    other_codes = [c for c in simsched.code_objects_of(U)
                   if c not in progress_codes]
    env.codes = list(progress_codes) + other_codes

    def on_line(code, line):
        s = simsched.SIM
        if s is None or not s.active or not s.holder_is_caller():
            return
        me = s.current
        if code in progress_codes:
            s.func[me] = code.co_name
            s.yield_point("%s:%d" % (code.co_name, line), clock_ok=True)
        else:
            s.yield_point("%s:%d" % (code.co_name, line), clock_ok=False)

    def on_return(code, offset, retval):
        s = simsched.SIM
        if s is None or not s.active or not s.holder_is_caller():
            return
        if code in progress_codes:
            s.func[s.current] = None

    simsched.enable_line_events(env.codes, on_line)
    mon = sys.monitoring
    mon.register_callback(simsched.TOOL_ID, mon.events.PY_RETURN, on_return)
    for co in progress_codes:
        mon.set_local_events(simsched.TOOL_ID, co,
                             mon.events.LINE | mon.events.PY_RETURN)
    env.threads_before = set(threading.enumerate())
    return env


# ---------------------------------------------------------------------------
# scenarios: each returns a list of zero-argument callables (the API calls)

def _td_callables(case, sim, plan, dt, start=0.0):
    o = models.ops()
    so = models.step_of_time(start, dt)

    def ham(t):
        return 0.5 * o["x"] * np.cos(t) + 0.1 * o["z"]

    def gam(t):
        return 0.1 + 0.05 * np.sin(t)

    def lop(t):
        return o["-"] * (1.0 + 0.1 * t)
    h = models.faulty("hamiltonian", ham, plan, so, sim)
    g = models.faulty("gamma", gam, plan, so, sim)
    lo = models.faulty("lindblad", lop, plan, so, sim)
    return h, g, lo


def _arm_user(case, plan):
    f = case.get("fault")
    if not f:
        return
    if f["kind"] in ("hamiltonian", "gamma", "lindblad", "field_eom",
                     "spectral_density", "prop_derivative"):
        spec = {"mode": f["mode"]}
        if f["mode"] == "step":
            spec["k"] = f["k"]
        else:
            spec["n"] = f["n"]
            spec["base"] = plan.calls.get(f["kind"], 0)
        plan.arm(f["kind"], spec)
    elif f["kind"] == "target":
        plan.arm("target", {"mode": "call", "n": 1,
                            "base": plan.calls.get("target", 0)})


def _pts(case, n, exact=False):
    """Process tensors for the scenario, damaged if the fault says so."""
    f = case.get("fault") or {}
    names = [case["pt"], "z2"][:case.get("npts", 1)]
    if exact:
        names = ["%s-%d" % (nm, n) for nm in names]
    elif n > 6:
        # long computations: built in the run itself (pure data, no progress
        # reporting involved: progress_type is 'silent' in make_pt)
        for nm in names:
            if nm + "-long" not in _LIB:
                _LIB[nm + "-long"] = models.make_pt(
                    "z" if nm.startswith("z") else "x", steps=n,
                    dkmax=3 if nm == "z" else 2,
                    alpha=0.05 if nm == "z2" else 0.1)
        names = [nm + "-long" for nm in names]
    pts = [_LIB[nm] for nm in names]
    if f.get("kind") in ("cap", "shape"):
        k = min(f["k"], n - 1)
        pts = list(pts)
        pts[-1] = models.break_pt(pts[-1], f["kind"], k)
    return pts


def _bad_control(case, n):
    import oqupy
    f = case.get("fault") or {}
    if f.get("kind") != "control":
        return None
    c = oqupy.Control(2)
    c.add_single(min(f["k"], n), np.identity(9), post=f.get("post", False))
    return c


def sc_compute_dynamics(case, sim, plan):
    import oqupy
    o = models.ops()
    n = case["steps"]
    h, g, lo = _td_callables(case, sim, plan, 0.1)
    system = oqupy.TimeDependentSystem(h, gammas=[g], lindblad_operators=[lo])
    pts = _pts(case, n)
    control = _bad_control(case, n)

    def call():
        return oqupy.compute_dynamics(
            system, o["up"], process_tensor=pts, num_steps=n,
            control=control, subdiv_limit=None,
            progress_type=case["progress"])
    return [call]


def _field_system(case, sim, plan, dt, nsys):
    import oqupy
    o = models.ops()
    so = models.step_of_time(0.0, dt)

    def ham(t, a):
        return 0.2 * o["z"] + 0.3 * (np.conj(a) * o["-"] + a * o["+"])

    def gam(t):
        return 0.05

    def lop(t):
        return o["-"]

    def eom(t, states, a):
        expect = sum(np.matmul(o["-"], s).trace() for s in states)
        return -(0.1j + 0.2) * a - 0.3j * expect
    h = models.faulty("hamiltonian", ham, plan, so, sim)
    g = models.faulty("gamma", gam, plan, so, sim)
    e = models.faulty("field_eom", eom, plan, so, sim)
    systems = [oqupy.TimeDependentSystemWithField(
        h, gammas=[g], lindblad_operators=[lop]) for _ in range(nsys)]
    return oqupy.MeanFieldSystem(systems, field_eom=e)


def sc_compute_dynamics_with_field(case, sim, plan):
    import oqupy
    o = models.ops()
    n = case["steps"]
    nsys = case.get("nsys", 1)
    mfs = _field_system(case, sim, plan, 0.1, nsys)
    pts = _pts(case, n)
    pt_list = [list(pts) for _ in range(nsys)]
    bad = _bad_control(case, n)
    controls = None if bad is None else [None] * (nsys - 1) + [bad]

    def call():
        return oqupy.compute_dynamics_with_field(
            mfs, 1.0 + 0.5j, process_tensor_list=pt_list, num_steps=n,
            initial_state_list=[o["up"]] * nsys, control_list=controls,
            subdiv_limit=None, progress_type=case["progress"])
    return [call]


def sc_gradient(case, sim, plan):
    import oqupy
    from scipy.linalg import expm
    o = models.ops()
    n = case["steps"]

    def ham(x, y):
        plan_h(x, y)
        return 0.5 * x * o["x"] + 0.5 * y * o["z"]

    plan_h = models.faulty("hamiltonian", lambda x, y: None, plan, None, sim)
    plan_g = models.faulty("gamma", lambda x, y: None, plan, None, sim)
    plan_l = models.faulty("lindblad", lambda x, y: None, plan, None, sim)

    def gam(x, y):
        plan_g(x, y)
        return 0.1

    def lop(x, y):
        plan_l(x, y)
        return o["-"]

    def dprop_raw(dt, params):
        # analytic-enough derivative by central differences of the propagator
        plan_d(dt)
        out = []
        params = [float(np.real(p)) for p in params]
        for i in range(2):
            hi = list(params); lo_ = list(params)
            hi[i] += 1e-6; lo_[i] -= 1e-6
            lio = lambda p: oqupy.system._liouvillian(
                0.5 * p[0] * o["x"] + 0.5 * p[1] * o["z"], [0.1], [o["-"]])
            out.append((expm(lio(hi) * dt / 2) - expm(lio(lo_) * dt / 2))
                       / 2e-6)
        return out
    plan_d = models.faulty("prop_derivative", lambda dt: None, plan, None, sim)
    system = oqupy.ParameterizedSystem(
        ham, gammas=[gam], lindblad_operators=[lop],
        propagator_derivatives=dprop_raw)
    pts = _pts(case, n, exact=True)
    params = np.array([[1.0 + 0.1 * i, 0.5 - 0.05 * i]
                       for i in range(2 * n)])
    target_arr = o["plus"].T

    def target(rho):
        plan_t(0)
        return target_arr
    plan_t = models.faulty("target", lambda x: None, plan, None, sim)
    tgt = target if case.get("target_callable") else target_arr

    def call():
        return oqupy.state_gradient(
            system=system, initial_state=o["up"], target_derivative=tgt,
            process_tensors=pts, parameters=params,
            progress_type=case["progress"])
    return [call]


def _truncate(pt, n):
    """First n steps of a process tensor as an independent object."""
    import oqupy
    new = oqupy.process_tensor.SimpleProcessTensor(
        hilbert_space_dimension=pt.hilbert_space_dimension, dt=pt.dt,
        transform_in=pt.transform_in, transform_out=pt.transform_out)
    for k in range(n):
        new.set_mpo_tensor(k, np.array(pt.get_mpo_tensor(k, transformed=False)))
    for k in range(n + 1):
        cap = pt.get_cap_tensor(k)
        new.set_cap_tensor(k, None if cap is None else np.array(cap))
        if cap is None:
            new._cap_tensors[k] = None
    return new


def sc_tempo(case, sim, plan):
    import oqupy
    o = models.ops()
    n = case["steps"]
    dt = 0.1
    h, g, lo = _td_callables(case, sim, plan, dt)
    system = oqupy.TimeDependentSystem(h, gammas=[g], lindblad_operators=[lo])
    bath = models.make_bath(case["pt"])
    pars = oqupy.TempoParameters(dt=dt, epsrel=1e-4, dkmax=2,
                                 subdiv_limit=None)
    if case.get("shortcut"):
        return [lambda: oqupy.tempo_compute(
            system, bath, o["up"], 0.0, (n + 0.5) * dt, parameters=pars,
            progress_type=case["progress"])]
    tempo = oqupy.Tempo(system, bath, pars, o["up"], 0.0)
    calls = []
    if case.get("calls", 1) == 2:
        m = max(1, n // 2)
        calls.append(lambda: tempo.compute((m + 0.5) * dt,
                                           progress_type=case["progress"]))
    calls.append(lambda: tempo.compute((n + 0.5) * dt,
                                       progress_type=case["progress"]))
    return calls


def sc_mean_field_tempo(case, sim, plan):
    import oqupy
    o = models.ops()
    n = case["steps"]
    dt = 0.1
    mfs = _field_system(case, sim, plan, dt, 1)
    bath = models.make_bath(case["pt"])
    pars = oqupy.TempoParameters(dt=dt, epsrel=1e-4, dkmax=2,
                                 subdiv_limit=None)
    mft = oqupy.MeanFieldTempo(mfs, [bath], pars, [o["up"]], 1.0 + 0.5j, 0.0)
    calls = []
    if case.get("calls", 1) == 2:
        m = max(1, n // 2)
        calls.append(lambda: mft.compute((m + 0.5) * dt,
                                         progress_type=case["progress"]))
    calls.append(lambda: mft.compute((n + 0.5) * dt,
                                     progress_type=case["progress"]))
    return calls


def _custom_sd_bath(case, sim, plan, temperature):
    import oqupy
    o = models.ops()

    def j(w):
        return 0.2 * w
    jf = models.faulty("spectral_density", j, plan, None, sim)
    corr = oqupy.CustomSD(jf, cutoff=3.0, cutoff_type="exponential",
                          temperature=temperature)
    return oqupy.Bath(0.5 * o["z"], corr)


def sc_pt_tempo(case, sim, plan):
    import oqupy
    n = max(4, case["steps"] + 2)
    dt = 0.1
    bath = _custom_sd_bath(case, sim, plan, 0.0)
    pars = oqupy.TempoParameters(dt=dt, epsrel=1e-4, dkmax=2,
                                 add_correlation_time=0.3)
    ptt = oqupy.PtTempo(bath, 0.0, (n + 0.5) * dt, pars)

    def call():
        if case.get("shortcut"):
            # computes on demand, inside get_process_tensor
            return ptt.get_process_tensor(progress_type=case["progress"])
        ptt.compute(progress_type=case["progress"])
        return ptt
    return [call] * case.get("calls", 1)


def sc_gibbs_tempo(case, sim, plan):
    import oqupy
    o = models.ops()
    bath = _custom_sd_bath(case, sim, plan, 1.0)
    system = oqupy.System(0.5 * o["z"])
    pars = oqupy.GibbsParameters(n_steps=case["steps"] + 2, epsrel=1e-4)
    if case.get("shortcut"):
        return [lambda: oqupy.gibbs_tempo_compute(
            system, bath, pars, progress_type=case["progress"])]
    gt = oqupy.GibbsTempo(system, bath, pars)

    def call():
        return gt.compute(progress_type=case["progress"])
    return [call] * case.get("calls", 1)


def sc_pt_tebd(case, sim, plan):
    import oqupy
    o = models.ops()
    n = case["steps"]
    ns = case.get("sites", 3)
    f = case.get("fault") or {}
    chain = oqupy.SystemChain([2] * ns)
    for i in range(ns):
        chain.add_site_hamiltonian(i, 0.3 * o["z"] + 0.2 * o["x"])
    for i in range(ns - 1):
        chain.add_nn_hamiltonian(i, 0.5 * o["x"], o["x"])
    pts = [None] * ns
    base = _LIB[case["pt"]]
    if f.get("kind") == "pt_raises":
        pts[0] = models.make_raising_pt(base, min(f["k"], n - 1), plan)
    elif f.get("kind") == "pt_short":
        pts[0] = _truncate(base, max(1, min(f["k"], n - 1)))
    elif f.get("kind") == "shape":
        pts[0] = models.break_pt(base, "shape", min(f["k"], n - 1))
    else:
        pts[0] = base
    cfg = {}
    if case.get("parallel"):
        cfg["parallel"] = case["parallel"]
    mps = oqupy.AugmentedMPS([o["up"]] + [o["down"]] * (ns - 1))
    pars = oqupy.PtTebdParameters(dt=0.1, order=2, epsrel=1e-6)
    tebd = oqupy.PtTebd(mps, chain, pts, pars, dynamics_sites=[0],
                        backend_config=cfg)
    if f.get("kind") == "gate_task":
        _arm_gate_fault(plan, f["k"])
    calls = []
    if case.get("calls", 1) == 2:
        m = max(1, n // 2)
        calls.append(lambda: tebd.compute(m, progress_type=case["progress"]))
    end = float(n) if case.get("float_end_step") else n
    calls.append(lambda: tebd.compute(end, progress_type=case["progress"]))
    return calls


_GATE_PATCHED = [False]


def _arm_gate_fault(plan, k):
    """A gate application (a worker task in the parallel modes) fails."""
    import oqupy.backends.pt_tebd_backend as B
    if not _GATE_PATCHED[0]:
        orig = B._apply_nn_gate

        def _apply_nn_gate(*a, **kw):
            plan_ref[0].check("gate_task", plan_ref[0].calls.get(
                "gate_task", 0))
            return orig(*a, **kw)
        B._apply_nn_gate = _apply_nn_gate
        _GATE_PATCHED[0] = True
    plan_ref[0] = plan
    plan.arm("gate_task", {"mode": "call", "n": 3 * k + 1, "base": 0})


plan_ref = [None]


def sc_correlations(case, sim, plan):
    import oqupy
    o = models.ops()
    n = case["steps"]
    h, g, lo = _td_callables(case, sim, plan, 0.1)
    system = oqupy.TimeDependentSystem(h)
    pts = _pts(dict(case, npts=1), n)
    pt = pts[0]

    def call():
        if case.get("shortcut"):
            return oqupy.compute_correlations_nt(
                system, pt, [o["z"], o["x"], o["y"]],
                ops_times=[0, slice(0, 2), slice(1, n)],
                ops_order=["left", "right", "left"], initial_state=o["up"],
                progress_type=case["progress"])
        return oqupy.compute_correlations(
            system, pt, o["z"], o["x"], times_a=slice(0, min(3, n)),
            times_b=slice(0, n), initial_state=o["up"],
            progress_type=case["progress"])
    return [call]


def sc_bath_dynamics(case, sim, plan):
    import oqupy
    o = models.ops()
    n = case["steps"]
    h, g, lo = _td_callables(case, sim, plan, 0.1)
    system = oqupy.TimeDependentSystem(h)
    pt = _pts(dict(case, npts=1), n)[0]
    bath = models.make_bath(case["pt"])
    ttc = oqupy.TwoTimeBathCorrelations(system, bath, pt,
                                        initial_state=o["up"])
    calls = [lambda: ttc.occupation(1.0, 0.5,
                                    progress_type=case["progress"])]
    if case.get("calls", 1) == 2:
        calls.append(lambda: ttc.correlation(
            1.0, 0.2, time_2=0.3, progress_type=case["progress"]))
    return calls


SCENARIOS = {
    "compute_dynamics": sc_compute_dynamics,
    "compute_dynamics_with_field": sc_compute_dynamics_with_field,
    "gradient": sc_gradient,
    "tempo": sc_tempo,
    "mean_field_tempo": sc_mean_field_tempo,
    "pt_tempo": sc_pt_tempo,
    "gibbs_tempo": sc_gibbs_tempo,
    "pt_tebd": sc_pt_tebd,
    "correlations": sc_correlations,
    "bath_dynamics": sc_bath_dynamics,
}


# ---------------------------------------------------------------------------
# one simulated run

def run_case(case, dec):
    sc = case["sched"]
    sim = Sim(dec, p_switch=sc["p_switch"], p_clock=sc["p_clock"],
              jump_weights=sc["jw"])
    if case.get("directed"):
        sim.script = simsched.DirectedSchedule(*case["directed"])
    env = _install(sim)
    if (case.get("fault") or {}).get("kind") == "stream":
        env.stream.fail_from = case["fault"]["k"]
    plan = models.FaultPlan()
    plan.exc_class = models.EXC_FLAVOURS[
        (case.get("fault") or {}).get("exc", "exception")]
    violations = []
    notes = []
    outcomes = []
    try:
        calls = SCENARIOS[case["api"]](case, sim, plan)
        for ci, call in enumerate(calls):
            last = ci == len(calls) - 1
            if last:
                _arm_user(case, plan)
            sim.api_ended = False
            sim.active = True
            outcome = "returned"
            held = None   # a caller may well keep the exception (and with it
            #               the traceback and every frame) while it cleans up
            other = None
            if last and case.get("concurrent"):
                other = _second_caller(case, sim)
                other.start()
            try:
                try:
                    call()
                finally:
                    if other is not None:
                        # the caller waits for its own thread before it
                        # looks at what the library left behind
                        other.join()
            except models.INJECTED as e:
                outcome = "raised:InjectedFault"
                held = e
            except simsched.Deadlock:
                outcome = "deadlock"
            except HarnessError:
                raise
            except Exception as e:  # noqa: BLE001 - classified below
                held = e
                outcome = "raised:" + type(e).__name__
                if plan.fired or (case.get("fault") or {}).get("kind") in (
                        "cap", "shape", "pt_short", "pt_raises", "gate_task",
                        "control", "stream") or case.get("float_end_step"):
                    pass  # expected consequence of the injected fault
                else:
                    notes.append("unexpected %s: %s" % (
                        type(e).__name__, str(e)[:120]))
            if outcome != "returned" and sim.timers and not [
                    r for r in sim.runnable if r != MAIN]:
                sim.probe("W3_fault_with_timer_pending" if sim.main_starts > 1
                          else "W4_fault_before_first_update")
            sim.ev("api-end", ci, outcome)
            outcomes.append(outcome)
            if [r for r in sim.runnable if r != MAIN]:
                sim.probe("W5_callback_in_flight_at_api_end")
            sim.api_ended = True
            violations += _quiescence_oracle(sim, env, case, ci)
            del held
            if violations:
                break
    finally:
        sim.active = False
        sys.stdout = env.real_stdout
    res = {
        "violations": violations,
        "notes": notes,
        "digest": sim.log.digest(),
        "events": len(sim.log),
        "sim_ms": sim.now_ms,
        "outcomes": outcomes,
        "probes": sim.probes,
        "faults_fired": dict({("user:" + f[0]): 1 for f in plan.fired},
                             **({"io:stream_write_error": env.stream.failed}
                                if env.stream.failed else {})),
        "switches": sorted("|".join(s) for s in sim.switches),
        "pairs": sorted("|".join(p) for p in sim.pairs),
        "cb_exceptions": [list(x) for x in sim.cb_exceptions],
        "directed_reached": list(sim.script.reached)
        if sim.script is not None else None,
        "directed_counts": [sim.script.main_count, sim.script.cb_count]
        if sim.script is not None else None,
        "nontrivial": bool(sim.probes.get("timer_fired") or plan.fired
                           or sim.switches),
        "key": "%s/%s/%s/%s" % (case["api"], case["progress"],
                                (case.get("fault") or {}).get("kind"),
                                outcomes[-1] if outcomes else "-"),
    }
    f = case.get("fault")
    if f and f["kind"] in ("cap", "shape", "pt_short", "pt_raises",
                           "gate_task", "control") and outcomes and \
            outcomes[-1] != "returned":
        res["faults_fired"]["input:" + f["kind"]] = 1
    return res


def _second_caller(case, sim):
    """Another thread of the caller's program running its own library call
    (a plain compute_dynamics with its own progress reporter)."""
    import oqupy
    o = models.ops()
    cc = case["concurrent"]
    system = oqupy.System(0.3 * o["x"] + 0.1 * o["z"])

    def body():
        try:
            oqupy.compute_dynamics(system, o["up"], dt=0.1,
                                   num_steps=cc["steps"],
                                   progress_type=cc["progress"])
            sim.ev("second-caller", "returned")
        except Exception as e:  # noqa: BLE001 - e.g. the broken stream
            sim.ev("second-caller", "raised", type(e).__name__)
    return simsched.SimThread(target=body, name="second-caller")


def _quiescence_oracle(sim, env, case, ci):
    """After the call returned or raised: nothing may stay alive."""
    v = []
    sig_base = "%s/%s/%s" % (case["api"], case["progress"],
                             (case.get("fault") or {}).get("kind"))
    if sim.deadlock:
        v.append({"class": "deadlock", "signature": sig_base,
                  "detail": "the call dead-locked against its own timer "
                            "callback (it would never return)"})
        return v
    stuck = sim.drain()
    sleeping = [r for r in stuck if sim.deadlines.get(r) is not None]
    if sim.deadlock or [r for r in stuck if r not in sleeping]:
        v.append({"class": "deadlock", "signature": sig_base,
                  "detail": "threads blocked for ever: %s" % stuck})
        return v
    pending = list(sim.timers)
    writes_before = sim.writes_after_end
    fired = sim.run_horizon(HORIZON_MS)
    still = list(sim.timers)
    if sleeping:
        alive = [r for r in sim.runnable if r != MAIN]
        v.append({
            "class": "thread_alive_after_call",
            "signature": sig_base + ("/still-running" if alive else
                                     "/lingering"),
            "detail": "helper thread(s) %s were still alive (sleeping) when "
                      "the call had ended; after %d ms %s; %d writes to the "
                      "stream after the call" % (
                          sleeping, HORIZON_MS,
                          "still alive: %s" % alive if alive
                          else "they had exited",
                          sim.writes_after_end - writes_before)})
        return v
    if pending:
        forever = bool(still) or fired > 1
        v.append({
            "class": "timer_alive_after_call",
            "signature": sig_base + ("/rearming" if forever else "/one-shot"),
            "detail": "%d timer(s) armed after the call ended (armed by %s); "
                      "%d fired within %d ms, %d still armed; %d writes to the "
                      "stream after the call" % (
                          len(pending),
                          ",".join(sorted({t.creator for t in pending})),
                          fired, HORIZON_MS, len(still),
                          sim.writes_after_end - writes_before)})
        # leave the simulation in a clean state for a possible second call
        for t in list(sim.timers):
            sim.timers.remove(t)
        return v
    unshut = [p for p in sim.pools if not p.shut]
    if unshut:
        v.append({"class": "executor_alive_after_call", "signature": sig_base,
                  "detail": "%d executor(s) not shut down" % len(unshut)})
    for name, th in list(sim.threads.items()):
        th.join(2.0)
        if th.is_alive():
            v.append({"class": "thread_alive_after_call",
                      "signature": sig_base,
                      "detail": "baton thread %s still alive" % name})
            break
    foreign = [t for t in threading.enumerate()
               if t not in env.threads_before
               and t.name not in sim.threads]
    if foreign:
        for t in foreign:
            t.join(2.0)
        foreign = [t for t in foreign if t.is_alive()]
        sim.probe("foreign_thread_seen")
    if foreign:
        v.append({"class": "thread_alive_after_call", "signature": sig_base,
                  "detail": "real thread(s) alive: %s" % [
                      t.name for t in foreign]})
    if sim.writes_after_end - writes_before > 0 and not v:
        v.append({"class": "writes_after_call", "signature": sig_base,
                  "detail": "stream written during the %d ms after the call"
                            % HORIZON_MS})
    return v


# ---------------------------------------------------------------------------
# evidence

TIERS = {"quick": {"runs": 4000, "budget": 60.0, "cap": 90.0},
         "thorough": {"runs": 400000, "budget": 900.0, "cap": 180.0}}

RULE = ("each run = one seeded case (API x progress type x fault kind/step x "
        "scheduler parameters) executed under the baton scheduler; a run is "
        "non-trivial if a timer fired, a fault fired or a context switch "
        "happened; distinct = distinct event-log digests among non-trivial "
        "runs")

COMPONENTS = {
    "real": ["oqupy (all of it, from /repo working tree)", "numpy/scipy",
             "tensornetwork", "Python threads running the callbacks",
             "ProcessPool tasks (forked children, pickled arguments/results)"],
    "stub": ["threading.Timer -> SimTimer (virtual clock)",
             "time.time -> virtual clock", "sys.stdout -> recording stream",
             "threading.Lock/RLock/Event inside oqupy.util -> SimLock etc.",
             "concurrent.futures executors -> SimThreadPool/SimProcessPool",
             "OS scheduler -> seeded decisions at LINE events of oqupy.util"],
}

ASSUMPTIONS = [
    "pre-emption granularity is one source line of oqupy.util; interleavings "
    "inside a line or inside numpy/tensornetwork are not explored",
    "the caller is pre-empted only inside oqupy.util, at user callables and "
    "at stream writes (the two threads share nothing but the progress object)",
    "SimTimer mirrors threading.Timer: double start raises, cancel before "
    "start suppresses the function, cancel after firing is a no-op",
]


def summarize(results):
    pairs = set()
    switches = set()
    apis = {}
    grid = {}
    for r in results:
        if r.get("enumerated"):
            c = r.get("case", {})
            key = "%s/%s/%s" % (c.get("api"), (c.get("fault") or {}).get(
                "kind"), c.get("directed", [0, 0, "?"])[2])
            g = grid.setdefault(key, {"cells": 0, "preempted": 0,
                                      "main_points": 0, "callback_points": 0})
            g["cells"] += 1
            if r.get("directed_reached") == [True, True]:
                g["preempted"] += 1
            mc, cc = r.get("directed_counts") or [0, 0]
            g["main_points"] = max(g["main_points"], mc)
            g["callback_points"] = max(g["callback_points"], cc)
        pairs.update(r.get("pairs", []))
        switches.update(r.get("switches", []))
        c = r.get("case", {})
        k = "%s/%s" % (c.get("api"), c.get("progress"))
        apis[k] = apis.get(k, 0) + 1
    return {
        "interleavings": {
            "definition": "distinct (callback line, caller line) pairs at "
                          "which a context switch between the timer callback "
                          "and the calling thread happened",
            "count": len(pairs),
            "switch_points": len(switches)},
        "api_progress_matrix": apis,
        "directed_grid": {
            "definition": "caller runs to its i-th line inside a progress "
                          "method, one timer period passes, the callback runs "
                          "to its j-th line, the caller runs to the end of the "
                          "call (variant end) or to its next progress method "
                          "(variant update), the callback resumes",
            "per_scenario": grid},
    }


def static_checks(tier, seed):
    """Real threading.Timer, real clock, real stdout in fresh interpreters."""
    import os
    from .. import fidelity
    src = os.environ.get("OQUPY_SRC", "/repo")
    violations, report = fidelity.real_timer_cases(src)
    return {"violations": violations, "report": {"real_timer_runs": report}}


# ---------------------------------------------------------------------------
# the finite grid of the property text, enumerated: caller position x
# pre-emption point of the callback, for canonical scenarios

GRID_SCENARIOS = [
    {"api": "compute_dynamics", "progress": None, "steps": 2, "pt": "z",
     "npts": 1, "calls": 1, "fault": None},
    {"api": "compute_dynamics", "progress": "bar", "steps": 2, "pt": "z",
     "npts": 1, "calls": 1,
     "fault": {"kind": "hamiltonian", "mode": "step", "k": 1}},
    {"api": "tempo", "progress": None, "steps": 2, "pt": "z", "npts": 1,
     "calls": 1, "fault": None, "shortcut": False},
    {"api": "gradient", "progress": None, "steps": 2, "pt": "z", "npts": 1,
     "calls": 1, "fault": None, "target_callable": False},
]
GRID_MAIN = 160     # upper bounds; cells beyond the real extent are no-ops
GRID_CB = 30


def enumerated_cases(tier):
    si, sj = (5, 3) if tier == "quick" else (1, 1)
    scenarios = GRID_SCENARIOS[:2] if tier == "quick" else GRID_SCENARIOS
    sched = {"p_switch": 0.0, "p_clock": 0.0, "jw": [0, 1, 1, 1, 1, 1]}
    out = []
    for sc in scenarios:
        for variant in ("end", "update"):
            for i in range(0, GRID_MAIN, si):
                for j in range(0, GRID_CB, sj):
                    out.append(dict(sc, sched=sched,
                                    directed=[i, j, variant]))
    return out
