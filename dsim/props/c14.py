"""C14 - splitting, repeating, failing and restarting compute calls.

Engine: opmachine.  A run is a list of plain-data operations interpreted
against the real method object and a reference model (the dynamics of one
uninterrupted call on fresh, fault-free objects).  Faults are transient
exceptions from user callables (Hamiltonian, rate, Lindblad operator, field
equation) at a drawn step / evaluation; PT-TEBD additionally supports
crash_restart from its exported chain state.
"""
import warnings

import numpy as np

from .. import models
from ..core import EventLog, InjectedFault

# largest observed (deviation / tolerance) of a comparison that passed
MARGIN = [0.0]

ID = "C14"
LEVEL = "exploration"
ENGINE = "opmachine"

TIERS = {"quick": {"runs": 800, "budget": 75.0, "cap": 120.0},
         "thorough": {"runs": 200000, "budget": 900.0, "cap": 300.0}}

METHODS = ["tempo", "mean_field", "pt_tebd", "pt_tempo", "gibbs"]


def _pick(rng, seq, weights=None):
    if weights is None:
        return seq[rng.randrange(len(seq))]
    return rng.choices(seq, weights=weights, k=1)[0]


def _r(rng, lo, hi, nd=3):
    return round(rng.uniform(lo, hi), nd)


def gen_case(rng, tier="quick"):
    method = _pick(rng, METHODS, [5, 4, 4, 1, 1])
    n = rng.randrange(3, 9)
    case = {"method": method, "n": n}
    m = {"dt": _pick(rng, [0.1, 0.15, 0.2]),
         # truncation far below the comparison tolerance (1e-7): a singular
         # value sitting on the threshold may fall either side in two runs of
         # the same computation, which moves the states by ~100 x epsrel
         "epsrel": _pick(rng, [1e-11, 1e-12]),
         "coupling": _pick(rng, ["z", "x", "y"], [3, 2, 1]),
         "alpha": _r(rng, 0.1, 0.6), "temperature": _pick(rng, [0.0, 0.5, 2.0]),
         "cutoff": _r(rng, 1.5, 4.0), "zeta": _pick(rng, [1.0, 1.0, 3.0]),
         "hx": _r(rng, 0.5, 2.0), "hz": _r(rng, 0.0, 1.0),
         "w": _r(rng, 0.5, 3.0), "gamma": _r(rng, 0.05, 0.5),
         "initial": _pick(rng, ["up", "plus", "down"]),
         "start_time": _pick(rng, [0.0, 0.0, 0.35, -1.0])}
    ops = []
    nops = rng.randrange(2, 8)
    # a few long computations: anything that only happens after many steps
    # (chunks, periodic work, counters, buffers that grow)
    long_run = rng.random() < 0.06
    if method == "tempo":
        if long_run:
            case["n"] = n = rng.randrange(33, 140 if tier == "quick"
                                          else 300)
        m["dkmax"] = _pick(rng, [None, 1, 2, 3], [2, 2, 3, 2])
        if long_run and m["dkmax"] is None:
            m["dkmax"] = 3
        m["system"] = _pick(rng, ["td", "td", "const"])
        m["dissipation"] = rng.random() < 0.6
        if long_run and rng.random() < 0.4:
            # long memory in a long run: affordable for pure dephasing
            # (bond dimensions stay small), and history independence is
            # all that is judged here
            m["dkmax"] = _pick(rng, [None, 64, 70, 100])
            m["coupling"] = "z"
            m["hx"] = 0.0
            m["dissipation"] = False
        m["unique"] = rng.random() < 0.25
        m["subdiv"] = _pick(rng, [None, None, 8])
        names = ["hamiltonian"] + (["gamma", "lindblad"]
                                   if m["dissipation"] else [])
        if rng.random() < 0.25:
            m["bath_kind"] = "customsd"
            m["zeta"] = 1.0
        for _ in range(nops):
            k = _pick(rng, ["compute", "get", "fault", "compute_grid",
                            "other_use"], [5, 2, 3, 2, 1])
            if k == "other_use":
                # another computation built from the same system and bath
                # objects, with another time step and start, runs in between
                ops.append(["other_use", rng.randrange(3), rng.randrange(3)])
            elif k == "compute":
                ops.append(["compute", rng.randrange(0, n + 1)])
            elif k == "compute_grid":
                # a target exactly on the time grid (k * dt)
                ops.append(["compute", rng.randrange(0, n + 1), "grid"])
            elif k == "get":
                ops.append(["get"])
            elif m.get("bath_kind") == "customsd" and rng.random() < 0.5:
                ops.append(["arm_fault", "spectral_density", "call",
                            int(round(10 ** rng.uniform(0, 3.3)))])
            elif m["system"] == "td":
                ops.append(["arm_fault", _pick(rng, names), "step",
                            rng.randrange(0, n)])
        ops.append(["compute", n])
    elif method == "mean_field":
        case["n"] = n = rng.randrange(3, 7)
        if long_run:
            case["n"] = n = rng.randrange(33, 80)
        m["dkmax"] = _pick(rng, [None, 1, 2])
        if long_run and m["dkmax"] is None:
            m["dkmax"] = 2
        m["nsys"] = _pick(rng, [1, 2, 2])
        m["unique"] = rng.random() < 0.25
        m["subdiv"] = None
        m["kappa"] = _r(rng, 0.1, 0.5)
        m["g"] = _r(rng, 0.2, 0.8)
        for _ in range(nops):
            k = _pick(rng, ["compute", "get", "fault", "other_use"],
                      [5, 2, 4, 1])
            if k == "other_use":
                ops.append(["other_use", rng.randrange(3), rng.randrange(3)])
            elif k == "compute":
                ops.append(["compute", rng.randrange(0, n + 1)])
            elif k == "get":
                ops.append(["get"])
            else:
                which = _pick(rng, ["field_eom", "field_eom", "hamiltonian",
                                    "gamma", "lindblad"])
                if which != "field_eom" and m["nsys"] > 1 and \
                        rng.random() < 0.6:
                    which += "1"
                if which == "field_eom":
                    ops.append(["arm_fault", which, "call",
                                rng.randrange(1, 3 * n + 1)])
                else:
                    ops.append(["arm_fault", which, "step",
                                rng.randrange(0, n)])
        ops.append(["compute", n])
    elif method == "pt_tebd":
        case["n"] = n = rng.randrange(2, 6)
        m["sites"] = _pick(rng, [2, 3, 3])
        m["pts"] = _pick(rng, ["none", "first", "all"])
        if long_run:
            case["n"] = n = rng.randrange(20, 45)
            m["pts"] = _pick(rng, ["none", "first"])
        m["order"] = _pick(rng, [1, 2])
        m["epsrel"] = _pick(rng, [1e-11, 1e-12])
        m["controls"] = rng.random() < 0.4
        m["start_step"] = _pick(rng, [0, 0, 1])
        m["tuple_site"] = rng.random() < 0.4
        # the same histories in the parallel execution modes (simulated
        # executors; the reference stays sequential)
        m["parallel"] = _pick(rng, [None, "multithread", "multiprocess"],
                              [3, 2, 1])
        restart = rng.random() < 0.6
        if restart:
            m["controls"] = False
        if m["pts"] != "none":
            # a fresh product state has no process-tensor bond: it can only
            # start at step 0 of the process tensors
            m["start_step"] = 0
        for _ in range(nops):
            k = _pick(rng, ["compute", "get", "restart", "peek"],
                      [5, 2, 3 if restart else 0, 2])
            if k == "compute":
                ops.append(["compute", rng.randrange(0, n + 1)])
            elif k == "get":
                ops.append(["get"])
            elif k == "peek":
                ops.append(["peek", rng.randrange(0, 3)])
            else:
                ops.append(["crash_restart"])
        ops.append(["compute", n])
    elif method == "pt_tempo":
        m["dkmax"] = _pick(rng, [None, 2, 3])
        m["epsrel"] = 1e-8
        m["unique"] = rng.random() < 0.3
        for _ in range(nops):
            ops.append([_pick(rng, ["compute", "get_pt"])])
    else:  # gibbs
        case["n"] = n = rng.randrange(2, 9)
        m["epsrel"] = 1e-9
        m["temperature"] = _pick(rng, [0.5, 1.0, 2.0])
        m["coupling"] = "z"
        for _ in range(nops):
            ops.append([_pick(rng, ["compute", "get_state", "get"])])
    if m.get("dkmax") is not None and method in ("tempo", "mean_field",
                                                  "pt_tempo"):
        # memory beyond the cutoff folded into the last influence functional
        m["act"] = _pick(rng, [None, None, 0.0, 0.25, "inf"])
    case["model"] = m
    case["ops"] = ops
    return case


def shrink(case):
    out = []
    ops = case["ops"]
    for i in range(len(ops)):
        c = dict(case); c["ops"] = ops[:i] + ops[i + 1:]; out.append(c)
    if case["n"] > 8:
        c = dict(case); c["n"] = case["n"] // 2
        c["ops"] = [_clip(op, c["n"]) for op in ops]; out.append(c)
    if case["n"] > 2:
        c = dict(case); c["n"] = case["n"] - 1
        c["ops"] = [_clip(op, c["n"]) for op in ops]; out.append(c)
    m = case["model"]
    for key in ("dissipation", "unique", "controls", "tuple_site"):
        if m.get(key):
            c = dict(case); c["model"] = dict(m, **{key: False}); out.append(c)
    if m.get("parallel"):
        c = dict(case); c["model"] = dict(m, parallel=None); out.append(c)
    if m.get("nsys", 1) > 1:
        c = dict(case); c["model"] = dict(m, nsys=1); out.append(c)
    if m.get("sites", 2) > 2:
        c = dict(case); c["model"] = dict(m, sites=2); out.append(c)
    return out


def _clip(op, n):
    op = list(op)
    if op[0] == "compute" and len(op) > 1:
        op[1] = min(op[1], n)
    if op[0] == "arm_fault" and op[2] == "step":
        op[3] = min(op[3], n - 1)
    return op


def prepare_worker():
    import oqupy  # noqa: F401
    warnings.simplefilter("ignore")


# ---------------------------------------------------------------------------
# builders (fresh objects each time they are called)

def _act(m):
    """add_correlation_time: None | float | 'inf' (JSON has no infinity)."""
    a = m.get("act")
    if a is None or m.get("dkmax") is None:
        return None
    return float("inf") if a == "inf" else float(a)


def _bath(m, plan=None):
    import oqupy
    o = models.ops()
    if m.get("bath_kind") == "customsd":
        # the spectral density is a user callable too: the influence
        # functionals beyond the precomputed ones are evaluated lazily,
        # inside a step
        def j(w):
            return 2.0 * m["alpha"] * w
        jf = j if plan is None else models.faulty(
            "spectral_density", j, plan, None)
        corr = oqupy.CustomSD(jf, cutoff=m["cutoff"],
                              cutoff_type="exponential",
                              temperature=m["temperature"])
    else:
        corr = oqupy.PowerLawSD(alpha=m["alpha"], zeta=m["zeta"],
                                cutoff=m["cutoff"],
                                temperature=m["temperature"])
    return oqupy.Bath(0.5 * o[m["coupling"]], corr)


def _initial(m):
    return models.ops()[m["initial"]]


def build_tempo(m, plan):
    import oqupy
    o = models.ops()
    dt, t0 = m["dt"], m["start_time"]
    so = models.step_of_time(t0, dt)
    if m["system"] == "const":
        kw = {}
        if m["dissipation"]:
            kw = {"gammas": [m["gamma"]], "lindblad_operators": [o["-"]]}
        system = oqupy.System(m["hx"] * o["x"] + m["hz"] * o["z"], **kw)
    else:
        def ham(t):
            return m["hx"] * np.cos(m["w"] * t) * o["x"] + m["hz"] * o["z"]

        def gam(t):
            return m["gamma"] * (1.0 + 0.5 * np.sin(t))

        def lop(t):
            return o["-"] * (1.0 + 0.2 * np.cos(t))
        kw = {}
        if m["dissipation"]:
            kw = {"gammas": [models.faulty("gamma", gam, plan, so)],
                  "lindblad_operators": [
                      models.faulty("lindblad", lop, plan, so)]}
        system = oqupy.TimeDependentSystem(
            models.faulty("hamiltonian", ham, plan, so), **kw)
    pars = oqupy.TempoParameters(dt=dt, epsrel=m["epsrel"], dkmax=m["dkmax"],
                                 add_correlation_time=_act(m),
                                 subdiv_limit=m["subdiv"])
    bath = _bath(m, plan)
    obj = oqupy.Tempo(system, bath, pars, _initial(m), t0,
                      unique=m["unique"])
    obj._dsim_parts = (system, bath)      # for the "other_use" operation
    return obj


def build_mean_field(m, plan):
    import oqupy
    o = models.ops()
    dt, t0 = m["dt"], m["start_time"]
    so = models.step_of_time(t0, dt)

    def ham(t, a):
        return m["hz"] * o["z"] + m["g"] * (np.conj(a) * o["-"] + a * o["+"])

    def gam(t):
        return m["gamma"]

    def lop(t):
        return o["-"]

    def eom(t, states, a):
        expect = sum(np.matmul(o["-"], s).trace() for s in states)
        return -(1j * m["w"] + m["kappa"]) * a - 1j * m["g"] * expect
    # every system has its own callables (and fault names): a failure in the
    # second system's Hamiltonian is a different fault point from one in the
    # first's
    def name(base, i):
        return base if i == 0 else "%s%d" % (base, i)
    systems = [oqupy.TimeDependentSystemWithField(
        models.faulty(name("hamiltonian", i), ham, plan, so),
        gammas=[models.faulty(name("gamma", i), gam, plan, so)],
        lindblad_operators=[models.faulty(name("lindblad", i), lop, plan,
                                          so)])
        for i in range(m["nsys"])]
    mfs = oqupy.MeanFieldSystem(
        systems, field_eom=models.faulty("field_eom", eom, plan, so))
    pars = oqupy.TempoParameters(dt=dt, epsrel=m["epsrel"], dkmax=m["dkmax"],
                                 add_correlation_time=_act(m),
                                 subdiv_limit=m["subdiv"])
    baths = [_bath(m) for _ in range(m["nsys"])]
    obj = oqupy.MeanFieldTempo(mfs, baths, pars, [_initial(m)] * m["nsys"],
                               0.8 + 0.3j, t0, unique=m["unique"])
    obj._dsim_parts = (mfs, baths)
    return obj


_PT_CACHE = {}


def _tebd_parts(m, n):
    import oqupy
    o = models.ops()
    ns = m["sites"]
    chain = oqupy.SystemChain([2] * ns)
    for i in range(ns):
        chain.add_site_hamiltonian(i, m["hz"] * o["z"] + 0.3 * (i + 1) * o["x"])
        chain.add_site_dissipation(i, o["-"], m["gamma"])
    for i in range(ns - 1):
        chain.add_nn_hamiltonian(i, m["hx"] * o["x"], o["x"])
        chain.add_nn_hamiltonian(i, 0.4 * o["y"], o["y"])
    total = n + m["start_step"]
    key = (m["coupling"], m["alpha"], m["temperature"], m["cutoff"],
           m["zeta"], m["dt"], total)
    pts = [None] * ns
    if m["pts"] != "none":
        if key not in _PT_CACHE:
            pars = oqupy.TempoParameters(dt=m["dt"], epsrel=1e-7, dkmax=3)
            _PT_CACHE[key] = oqupy.pt_tempo_compute(
                _bath(m), 0.0, (total + 0.5) * m["dt"], pars,
                progress_type="silent")
        for i in range(ns if m["pts"] == "all" else 1):
            pts[i] = _PT_CACHE[key]
    control = None
    if m["controls"]:
        control = oqupy.ChainControl([2] * ns)
        from oqupy.operators import left_super
        control.add_single_site_control(
            left_super(o["x"]), 0, m["start_step"] + 1, post=False)
        control.add_single_site_control(
            left_super(o["z"]), ns - 1, m["start_step"] + 2, post=True)
    sites = list(range(ns))
    if m["tuple_site"]:
        sites.append((0, 1))
    pars = oqupy.PtTebdParameters(dt=m["dt"], order=m["order"],
                                  epsrel=m["epsrel"])
    return chain, pts, control, sites, pars


def build_pt_tebd(m, n, amps=None, start_step=None, start_time=None,
                  parallel=None):
    import oqupy
    o = models.ops()
    chain, pts, control, sites, pars = _tebd_parts(m, n)
    if amps is None:
        amps = oqupy.AugmentedMPS([o["up"]] + [o["down"]] * (m["sites"] - 1))
        start_step = m["start_step"]
        start_time = m["start_time"]
    extra = {}
    if parallel:
        extra["backend_config"] = {"parallel": parallel}
    return oqupy.PtTebd(amps, chain, pts, pars, chain_control=control,
                        start_time=float(start_time), start_step=start_step,
                        dynamics_sites=sites, **extra)


def build_pt_tempo(m, n):
    import oqupy
    pars = oqupy.TempoParameters(dt=m["dt"], epsrel=m["epsrel"],
                                 dkmax=m["dkmax"],
                                 add_correlation_time=_act(m))
    return oqupy.PtTempo(_bath(m), m["start_time"],
                         m["start_time"] + (max(n, 2) + 0.5) * m["dt"], pars,
                         unique=m["unique"])


def build_gibbs(m, n):
    import oqupy
    o = models.ops()
    system = oqupy.System(m["hz"] * o["z"] + 0.2 * o["id"])
    pars = oqupy.GibbsParameters(n_steps=max(n, 2), epsrel=m["epsrel"])
    return oqupy.GibbsTempo(system, _bath(m), pars)


# ---------------------------------------------------------------------------

def _tol(m):
    # fixed, with epsrel <= 1e-9 everywhere (generators use 1e-11/1e-12):
    # observed noise <= 1e-3 x tolerance, smallest defect 2e-5 = 200 x
    return 1e-7


def _dyn_arrays(method, obj):
    """(times, list of state arrays per track, fields or None) of the object's
    current dynamics; None if there is none yet."""
    if method == "tempo":
        d = obj.get_dynamics()
        if d is None:
            return None
        return np.array(d.times), [np.array(d.states)], None
    if method == "mean_field":
        d = obj.get_dynamics()
        if d is None:
            return None
        return (np.array(d.times),
                [np.array(sd.states) for sd in d.system_dynamics],
                np.array(d.fields))
    if method == "pt_tebd":
        if obj.step is None:
            return None
        r = obj.get_results()
        keys = sorted(r["dynamics"].keys(), key=str)
        tracks = [np.array(r["dynamics"][k].states) for k in keys]
        tracks.append(np.array(r["norm"]).reshape(-1, 1, 1))
        return np.array(r["time"]), tracks, None
    raise ValueError(method)


def _compare_prefix(got, ref, upto, tol, time_tol=0.0, offset=0):
    """got must equal ref[offset : upto+1].  Returns a description of the
    first difference or None."""
    gt, gtracks, gf = got
    rt, rtracks, rf = ref
    want_len = upto + 1 - offset
    if len(gt) != want_len:
        return "dynamics has %d time points, expected %d" % (len(gt), want_len)
    wt = rt[offset:upto + 1]
    if time_tol == 0.0:
        if not np.array_equal(gt, wt):
            bad = int(np.argmax(gt != wt))
            return "time label %d is %r, expected %r" % (bad, float(gt[bad]),
                                                         float(wt[bad]))
    elif not np.allclose(gt, wt, rtol=0, atol=time_tol):
        return "time labels differ by %.3g" % float(np.max(np.abs(gt - wt)))
    for i, (g, r) in enumerate(zip(gtracks, rtracks)):
        w = r[offset:upto + 1]
        if g.shape != w.shape:
            return "track %d has shape %s, expected %s" % (i, g.shape, w.shape)
        err = float(np.max(np.abs(g - w))) if g.size else 0.0
        if err <= tol:
            MARGIN[0] = max(MARGIN[0], err / tol)
        if not err <= tol:
            step = int(np.argmax(np.max(np.abs(g - w).reshape(len(g), -1),
                                        axis=1)))
            return "states of track %d differ by %.3g (tolerance %.1g), " \
                   "first at index %d" % (i, err, tol, step)
    if gf is not None:
        w = rf[offset:upto + 1]
        err = float(np.max(np.abs(gf - w))) if gf.size else 0.0
        if not err <= tol:
            return "fields differ by %.3g (tolerance %.1g)" % (err, tol)
    return None


def _target_time(m, k):
    return m["start_time"] + (k + 0.5) * m["dt"]


def run_case(case, dec):
    method = case["method"]
    if method in ("pt_tempo", "gibbs"):
        return _run_fixed_end(case)
    log = EventLog()
    m, n = case["model"], case["n"]
    tol = _tol(m)
    violations = []
    stats = {"computes": 0, "faults_armed": 0, "faults_fired": 0,
             "retry_succeeded": 0, "retry_raised": 0, "restarts": 0,
             "noop_computes": 0, "crossed_dkmax": 0}

    def viol(cls, sig, detail):
        violations.append({"class": cls, "signature": sig, "detail": detail,
                           "fields": {"method": method}})

    # -- reference model: one uninterrupted call on fresh objects
    ref_plan = models.FaultPlan()
    if method == "tempo":
        ref_obj = build_tempo(m, ref_plan)
        ref_obj.compute(_target_time(m, n), progress_type="silent")
    elif method == "mean_field":
        ref_obj = build_mean_field(m, ref_plan)
        ref_obj.compute(_target_time(m, n), progress_type="silent")
    else:
        ref_obj = build_pt_tebd(m, n)
        ref_obj.compute(m["start_step"] + n, progress_type="silent")
    ref = _dyn_arrays(method, ref_obj)
    moves = [float(np.max(np.abs(np.diff(t, axis=0)))) if len(t) > 1 else 0.0
             for t in ref[1][:1]]
    nontrivial = bool(moves and moves[0] >= 1e-3)

    # -- system under test
    plan = models.FaultPlan()
    if method == "tempo":
        obj = build_tempo(m, plan)
    elif method == "mean_field":
        obj = build_mean_field(m, plan)
    else:
        sim = None
        if m.get("parallel"):
            from .. import simsched, simexec
            import oqupy.backends.pt_tebd_backend as backend_mod
            sim = simsched.Sim(dec, p_switch=0.0, p_clock=0.0)
            simsched.install(sim)
            simexec.install_executors(backend_mod)
            sim.active = True
        obj = build_pt_tebd(m, n, parallel=m.get("parallel"))
    reached = -1          # furthest target whose compute returned
    poisoned = False      # a retry after a fault raised: only consistency
    pending_fault = False
    offset = 0            # first reference index the object's results cover
    time_tol = 0.0

    def check_state(where):
        got = _dyn_arrays(method, obj)
        if got is None:
            return
        upto = offset + len(got[0]) - 1
        if upto > n:
            viol("dynamics_too_long", method,
                 "%s: dynamics has %d points but the furthest target is "
                 "step %d" % (where, len(got[0]), n))
            return
        d = _compare_prefix(got, ref, upto, tol, time_tol, offset)
        if d is not None:
            cls = "silently_different_after_fault" if (
                plan.fired) else "history_changes_result"
            viol(cls, "%s/%s" % (method, where.split(":")[0]),
                 "%s: %s" % (where, d))

    for op in case["ops"]:
        if violations:
            break
        kind = op[0]
        if kind == "arm_fault":
            name, mode, val = op[1], op[2], op[3]
            spec = {"mode": mode}
            if mode == "step":
                spec["k"] = val
            else:
                spec["n"] = val
                spec["base"] = plan.calls.get(name, 0)
            plan.arm(name, spec)
            stats["faults_armed"] += 1
            log.ev("arm", name, mode, val)
        elif kind == "get":
            check_state("get")
            log.ev("get")
        elif kind == "peek":
            # read-only queries between computes must not disturb the run,
            # and must agree with the reference at the current step
            if method != "pt_tebd" or obj.step is None:
                continue
            site = op[1] % m["sites"]
            try:
                rho = np.array(obj.get_current_density_matrix(site))
            except Exception as e:  # noqa: BLE001
                viol("query_raises", "pt_tebd/get_current_density_matrix",
                     "get_current_density_matrix(%d) raised %s" % (
                         site, type(e).__name__))
                continue
            got = _dyn_arrays(method, obj)
            idx = offset + len(got[0]) - 1
            keys = sorted(obj.get_results()["dynamics"].keys(), key=str)
            track = [i for i, kk in enumerate(keys) if kk == site]
            if track and idx <= n:
                want = ref[1][track[0]][idx]
                err = float(np.max(np.abs(rho - want)))
                if not err <= tol:
                    viol("history_changes_result", "pt_tebd/peek",
                         "get_current_density_matrix(%d) at step %d differs "
                         "from the reference by %.3g" % (site, idx, err))
            log.ev("peek", site)
        elif kind == "crash_restart":
            if obj.step is None:
                continue
            amps = obj.get_augmented_mps()
            step = obj.step
            t = obj.time(step)
            got = _dyn_arrays(method, obj)
            new_offset = offset + len(got[0]) - 1
            # only the exported state survives: arrays are copied, the old
            # object is dropped
            import oqupy
            amps2 = oqupy.AugmentedMPS(
                [np.array(g) for g in amps.gammas],
                [np.array(lam) for lam in amps.lambdas])
            del obj, amps
            obj = build_pt_tebd(m, n, amps2, step, t,
                                parallel=m.get("parallel"))
            offset = new_offset
            time_tol = 1e-12
            stats["restarts"] += 1
            log.ev("restart", step)
        elif kind == "other_use":
            if method not in ("tempo", "mean_field"):
                continue
            import oqupy
            parts = getattr(obj, "_dsim_parts", None)
            if parts is None:
                continue
            dt2 = [0.05, 0.1, 0.25][op[1]]
            if abs(dt2 - m["dt"]) < 1e-12:
                dt2 = 0.07
            t2 = m["start_time"] + [0.0, 0.3, -0.2][op[2]]
            pars2 = oqupy.TempoParameters(
                dt=dt2, epsrel=m["epsrel"], dkmax=m["dkmax"],
                add_correlation_time=_act(m), subdiv_limit=m["subdiv"])
            try:
                if method == "tempo":
                    other = oqupy.Tempo(parts[0], parts[1], pars2,
                                        _initial(m), t2, unique=m["unique"])
                else:
                    other = oqupy.MeanFieldTempo(
                        parts[0], parts[1], pars2,
                        [_initial(m)] * m["nsys"], 0.2 - 0.1j, t2,
                        unique=m["unique"])
                other.compute(t2 + 2.5 * dt2, progress_type="silent")
            except InjectedFault:
                # an armed fault went off in the other computation: it is
                # spent there
                pending_fault = pending_fault or False
            stats["other_uses"] = stats.get("other_uses", 0) + 1
            log.ev("other_use", op[1], op[2])
            check_state("other_use")
        elif kind == "compute":
            k = op[1]
            t_target = None
            if len(op) > 2 and op[2] == "grid" and method != "pt_tebd":
                # exactly on the grid: the step count is whatever the
                # documented truncation int((t - start)/dt) gives (its float
                # behaviour is C13's subject; here only split == single)
                t_target = m["start_time"] + k * m["dt"]
                k = max(0, int((t_target - m["start_time"]) / m["dt"]))
            fired_before = len(plan.fired)
            before = _dyn_arrays(method, obj)
            try:
                if method == "pt_tebd":
                    obj.compute(m["start_step"] + k, progress_type="silent")
                else:
                    obj.compute(_target_time(m, k) if t_target is None
                                else t_target, progress_type="silent")
                raised = None
            except InjectedFault:
                raised = "InjectedFault"
            except Exception as e:  # noqa: BLE001 - classified below
                raised = type(e).__name__
            stats["computes"] += 1
            log.ev("compute", k, raised or "ok")
            if raised == "InjectedFault":
                stats["faults_fired"] += len(plan.fired) - fired_before
                pending_fault = True
                check_state("after-failed-compute:%d" % k)
                continue
            if raised is not None:
                if pending_fault or poisoned:
                    # a retry that fails again is allowed by the property
                    poisoned = True
                    stats["retry_raised"] += 1
                    check_state("after-raising-retry:%d" % k)
                    continue
                viol("compute_raises", "%s/%s" % (method, raised),
                     "compute(target step %d) raised %s on a fault-free "
                     "history" % (k, raised))
                continue
            if pending_fault:
                stats["retry_succeeded"] += 1
                pending_fault = False
            if k <= reached and before is not None:
                stats["noop_computes"] += 1
            reached = max(reached, k)
            if m.get("dkmax") is not None and reached > m["dkmax"]:
                stats["crossed_dkmax"] = 1
            got = _dyn_arrays(method, obj)
            if got is None:
                viol("silently_different_after_fault" if plan.fired
                     else "history_changes_result", "%s/no-dynamics" % method,
                     "compute(target step %d) returned without error but the "
                     "object has no dynamics at all" % k)
                continue
            before_upto = offset if before is None else \
                offset + len(before[0]) - 1
            want_upto = max(k, before_upto)
            have_upto = offset + len(got[0]) - 1
            if have_upto != want_upto and not poisoned:
                viol("history_changes_result" if not plan.fired
                     else "silently_different_after_fault",
                     "%s/length" % method,
                     "after compute(target step %d) the dynamics ends at "
                     "step %d, expected %d" % (k, have_upto, want_upto))
                continue
            check_state("compute:%d" % k)
    if method == "pt_tebd" and m.get("parallel"):
        sim.active = False
        stats["gate_tasks"] = len([e for e in sim.log.events
                                   if e[0] == "task-done"])
        log.ev("sim", sim.log.digest())
        if [p for p in sim.pools if not p.shut] and not violations:
            viol("executor_left_running", "pt_tebd/%s" % m["parallel"],
                 "an executor is still running after the last compute call "
                 "returned")
    return {
        "violations": violations[:2], "notes": [], "digest": log.digest(),
        "events": len(log), "sim_ms": 0, "outcomes": [method],
        "probes": dict(stats),
        "faults_fired": {"user:" + f[0]: 1 for f in plan.fired},
        "nontrivial": nontrivial and stats["computes"] >= 2,
        "key": "%s/f%d/r%d" % (method, stats["faults_fired"],
                               stats["restarts"]),
        "margin": MARGIN[0],
        "stats": stats,
    }


def _run_fixed_end(case):
    """PT-TEMPO and Gibbs: compute() / fetch are idempotent."""
    import oqupy
    method = case["method"]
    m, n = case["model"], case["n"]
    log = EventLog()
    violations = []
    stats = {"computes": 0, "fetches": 0}
    tol = _tol(m)

    def viol(cls, sig, detail):
        violations.append({"class": cls, "signature": sig, "detail": detail,
                           "fields": {"method": method}})
    o = models.ops()
    if method == "pt_tempo":
        ref_obj = build_pt_tempo(m, n)
        ref_obj.compute(progress_type="silent")
        ref_pt = ref_obj.get_process_tensor()
        system = oqupy.System(m["hx"] * o["x"] + m["hz"] * o["z"])

        def observable(pt):
            d = oqupy.compute_dynamics(system, o["up"], process_tensor=pt,
                                       progress_type="silent")
            return len(pt), np.array(d.states)
        ref_len, ref_states = observable(ref_pt)
        obj = build_pt_tempo(m, n)
        done = False
        for op in case["ops"]:
            if violations:
                break
            try:
                if op[0] == "compute":
                    obj.compute(progress_type="silent")
                    stats["computes"] += 1
                    pt = None
                else:
                    pt = obj.get_process_tensor(progress_type="silent")
                    stats["fetches"] += 1
            except Exception as e:  # noqa: BLE001
                viol("repeat_raises", "pt_tempo/%s/%s" % (
                    op[0], type(e).__name__),
                    "%s() %s raised %s: %s" % (
                        op[0], "again" if done else "", type(e).__name__,
                        str(e)[:120]))
                break
            done = True
            log.ev(op[0])
            if pt is not None:
                ln, st = observable(pt)
                if ln != ref_len or st.shape != ref_states.shape or \
                        float(np.max(np.abs(st - ref_states))) > tol:
                    viol("repeat_changes_result", "pt_tempo/" + op[0],
                         "process tensor after repeated calls differs from a "
                         "single computation (length %d vs %d)" % (
                             ln, ref_len))
    else:
        ref_obj = build_gibbs(m, n)
        ref_obj.compute(progress_type="silent")
        ref_state = np.array(ref_obj.get_state())
        ref_dyn = ref_obj.get_dynamics()
        ref_times = np.array(ref_dyn.times)
        obj = build_gibbs(m, n)
        done = False
        for op in case["ops"]:
            if violations:
                break
            try:
                if op[0] == "compute":
                    obj.compute(progress_type="silent")
                    stats["computes"] += 1
                    done = True
                    log.ev("compute")
                    continue
                if not done:
                    continue   # fetching before any compute: not specified
                stats["fetches"] += 1
                if op[0] == "get_state":
                    st = np.array(obj.get_state())
                    if float(np.max(np.abs(st - ref_state))) > tol:
                        viol("repeat_changes_result", "gibbs/get_state",
                             "state after %d compute() calls differs from "
                             "the state after one by %.3g" % (
                                 stats["computes"],
                                 float(np.max(np.abs(st - ref_state)))))
                else:
                    d = obj.get_dynamics()
                    t = np.array(d.times)
                    if len(t) != len(ref_times) or not np.array_equal(
                            t, ref_times):
                        viol("repeat_changes_result", "gibbs/get_dynamics",
                             "dynamics has %d points after %d compute() "
                             "calls, %d after one" % (
                                 len(t), stats["computes"], len(ref_times)))
                log.ev(op[0])
            except Exception as e:  # noqa: BLE001
                viol("repeat_raises", "gibbs/%s/%s" % (
                    op[0], type(e).__name__),
                    "%s raised %s" % (op[0], type(e).__name__))
                break
    return {
        "violations": violations[:2], "notes": [], "digest": log.digest(),
        "events": len(log), "sim_ms": 0, "outcomes": [method],
        "probes": dict(stats), "faults_fired": {},
        "nontrivial": stats["computes"] + stats["fetches"] >= 2,
        "key": "%s/c%d" % (method, stats["computes"]),
        "stats": stats,
    }


RULE = ("each run = one seeded history of compute(target)/get/arm_fault/"
        "crash_restart operations on one method object (TEMPO, mean-field "
        "TEMPO, PT-TEBD, PT-TEMPO, Gibbs), checked after every operation "
        "against the single-call reference on fresh objects; non-trivial = "
        "at least two compute calls and reference states that move by >= "
        "1e-3 per step; distinct = distinct event-log digests")
COMPONENTS = {
    "real": ["oqupy method objects and back-ends", "numpy/scipy",
             "tensornetwork"],
    "stub": ["user callables wrapped by fault injectors",
             "process restart = new PtTebd from copies of the exported "
             "arrays"],
}
ASSUMPTIONS = [
    "tolerance 1e-7 with epsrel 1e-11/1e-12: same algorithm, same order of "
    "operations; observed noise <= 1e-3 of the tolerance (with epsrel 1e-9 "
    "a run-to-run deviation of 0.7 x tolerance was seen once in 1.5e4 "
    "histories: a singular value on the truncation threshold)",
    "a retry after an injected failure may raise again (allowed); only a "
    "successful retry with different dynamics, or wrong partial dynamics, "
    "is a violation",
    "crash_restart histories carry no controls",
]


def summarize(results):
    tot = {}
    by = {}
    for r in results:
        for k, v in (r.get("stats") or {}).items():
            tot[k] = tot.get(k, 0) + v
        c = r.get("case", {}).get("method")
        by[c] = by.get(c, 0) + 1
    enum = {}
    for r in results:
        k = r.get("case", {}).get("enumerated")
        if k:
            enum[k] = enum.get(k, 0) + 1
    return {"operations": tot, "methods": by,
            "largest_passing_deviation_over_tolerance": max(
                [r.get("margin", 0.0) for r in results] or [0.0]),
            "bounded_exhaustive": {
                "definition": "all histories of <= 2 (quick) / 3 (thorough) "
                              "compute(target) calls over a 3-step grid; "
                              "every single fault placement (callable x "
                              "step, field equation x call) followed by a "
                              "retry; restart at every step - for one "
                              "canonical model per continuing method",
                "cases": enum}}


# ---------------------------------------------------------------------------
# bounded-exhaustive part: every history of up to three compute(target) calls
# over a grid of three steps, and every single fault placement followed by a
# retry, for one canonical model per continuing method

_BASE = {"dt": 0.1, "epsrel": 1e-11, "coupling": "x", "alpha": 0.3,
         "temperature": 0.5, "cutoff": 3.0, "zeta": 1.0, "hx": 1.2,
         "hz": 0.4, "w": 2.0, "gamma": 0.2, "initial": "up",
         "start_time": 0.35}

CANONICAL = {
    "tempo": dict(_BASE, dkmax=1, system="td", dissipation=True,
                  unique=False, subdiv=None, act=0.25),
    "mean_field": dict(_BASE, dkmax=1, nsys=2, unique=False, subdiv=None,
                       kappa=0.3, g=0.5),
    "pt_tebd": dict(_BASE, sites=3, pts="all", order=2, epsrel=1e-11,
                    controls=True, start_step=0, tuple_site=True),
}


def enumerated_cases(tier):
    import itertools
    n = 3
    out = []
    maxlen = 2 if tier == "quick" else 3
    for method, model in CANONICAL.items():
        for length in range(1, maxlen + 1):
            for targets in itertools.product(range(n + 1), repeat=length):
                ops = [["compute", t] for t in targets] + [["get"]]
                out.append({"method": method, "n": n, "model": model,
                            "ops": ops, "enumerated": "targets"})
    # single transient fault at every placement, then the retry
    for name in ("hamiltonian", "gamma", "lindblad"):
        for k in range(n):
            out.append({"method": "tempo", "n": n,
                        "model": CANONICAL["tempo"],
                        "ops": [["arm_fault", name, "step", k],
                                ["compute", n], ["get"], ["compute", n]],
                        "enumerated": "fault"})
    for name in ("hamiltonian", "hamiltonian1", "gamma", "gamma1",
                 "lindblad", "lindblad1"):
        for k in range(n):
            out.append({"method": "mean_field", "n": n,
                        "model": CANONICAL["mean_field"],
                        "ops": [["arm_fault", name, "step", k],
                                ["compute", n], ["get"], ["compute", n]],
                        "enumerated": "fault"})
    for call in range(1, 3 * n + 1):
        out.append({"method": "mean_field", "n": n,
                    "model": CANONICAL["mean_field"],
                    "ops": [["arm_fault", "field_eom", "call", call],
                            ["compute", n], ["get"], ["compute", n]],
                    "enumerated": "fault"})
    # the spectral density of a CustomSD bath is a user callable too; it is
    # evaluated lazily inside the steps (full memory / add_correlation_time),
    # many times per step: a transient failure at call numbers on a
    # logarithmic grid, then the retry
    grid = sorted({int(round(1.35 ** i)) for i in range(0, 28)})
    for dkmax, act in ((None, None), (1, 0.25)):
        sd_model = dict(CANONICAL["tempo"], bath_kind="customsd", zeta=1.0,
                        dkmax=dkmax, act=act)
        for call in (grid if tier != "quick" else grid[::2]):
            out.append({"method": "tempo", "n": n, "model": sd_model,
                        "ops": [["compute", 1],
                                ["arm_fault", "spectral_density", "call",
                                 call],
                                ["compute", n], ["get"], ["compute", n]],
                        "enumerated": "fault"})
    # restart of the chain at every step
    rmodel = dict(CANONICAL["pt_tebd"], controls=False)
    for k in range(n + 1):
        out.append({"method": "pt_tebd", "n": n, "model": rmodel,
                    "ops": [["compute", k], ["crash_restart"],
                            ["compute", n], ["get"]],
                    "enumerated": "restart"})
    return out
