"""C16 - process tensors survive export, import and file-backed computation.

Engine: simdisk in its fault-free configuration (kept apart from C17 so that
no relaxation made for faults can hide an ordinary bug).  An operation machine
over a small store of process tensors and simulated files, checked against a
reference model (what was written) after every operation.
"""
import warnings

import numpy as np

from .. import simdisk, models
from ..core import EventLog
from . import c17

# largest observed (deviation / tolerance) of a comparison that passed
MARGIN = [0.0]

ID = "C16"
LEVEL = "exploration"
ENGINE = "simdisk"

TIERS = {"quick": {"runs": 1500, "budget": 60.0, "cap": 120.0},
         "thorough": {"runs": 200000, "budget": 900.0, "cap": 300.0}}

CONSUMERS = ["dynamics", "correlations", "gradient", "pt_tebd", "with_field",
             "multi_env", "correlations_nt"]
FILES = ["a.hdf5", "b.hdf5", "c.hdf5"]


def _pick(rng, seq, weights=None):
    if weights is None:
        return seq[rng.randrange(len(seq))]
    return rng.choices(seq, weights=weights, k=1)[0]


def gen_spec(rng, tier="quick"):
    if rng.random() < 0.6:
        spec = {"kind": "hand", "n": rng.randrange(1, 7),
                "d": _pick(rng, [2, 2, 3]), "chi": rng.randrange(1, 6),
                "rank": _pick(rng, [3, 4]), "dt": _pick(rng, [None, 0.1]),
                "transforms": rng.random() < 0.4, "caps": True,
                "named": rng.random() < 0.6, "tseed": rng.randrange(1 << 30)}
        if spec["rank"] == 3:
            spec["transforms"] = False
        r = rng.random()
        if r < 0.06:
            # bond dimensions around the limits of small integer types
            spec["n"] = _pick(rng, [2, 3])
            spec["chi"] = _pick(rng, [127, 128, 129, 255, 256, 257, 300])
            spec["d"] = 2
        elif r < 0.14 and spec["rank"] == 4:
            spec["transforms"] = "near_identity"
        elif r < 0.26 and spec["rank"] == 4:
            spec["transforms"] = _pick(rng, ["in_only", "out_only"])
        rc = rng.random()
        if rc < 0.2:
            spec["caps"] = "custom"
        elif rc < 0.28:
            # exported before compute_caps(): a legal process tensor that
            # cannot be contracted yet
            spec["caps"] = False
        spec["layout"] = _pick(rng, ["c", "c", "f", "view"])
        if rng.random() < 0.04:
            # long process tensors (anything done in chunks or every N steps)
            spec["n"] = rng.randrange(33, 101 if tier == "quick" else 200)
            spec["chi"] = rng.randrange(1, 4)
        elif rng.random() < 0.1:
            # tensors with more than 2**14 elements (fast paths for big data)
            spec["n"] = 3
            spec["chi"] = _pick(rng, [32, 40, 64])
    else:
        spec = {"kind": "ptt", "coupling": _pick(rng, ["z", "x", "y", "zx"]),
                "steps": rng.randrange(2, 7), "dkmax": _pick(rng, [None, 2]),
                "alpha": _pick(rng, [0.1, 0.3]),
                "temperature": _pick(rng, [0.0, 0.8]),
                "epsrel": _pick(rng, [1e-9, 1e-11]),
                "unique": rng.random() < 0.25}
        if rng.random() < 0.04:
            spec["steps"] = rng.randrange(33, 65)
            spec["dkmax"] = 2
            spec["epsrel"] = 1e-9
    return spec


def gen_case(rng, tier="quick"):
    ops = []
    nops = rng.randrange(3, 10)
    ops.append(["build", gen_spec(rng, tier)])
    kinds = ["build", "export", "restart", "import", "use",
             "close", "ptt_file", "reexport", "roundtrip"]
    weights = [2, 3, 1, 3, 4, 1, 2, 1, 5]
    consumers = list(CONSUMERS)
    if rng.random() < 0.4:
        # swarm: only some operation kinds / consumers in this history
        mask = [rng.random() < 0.45 for _ in kinds]
        if sum(mask) < 2:
            for i in rng.sample(range(len(kinds)), 2):
                mask[i] = True
        weights = [w + 1 if m else 0 for w, m in zip(weights, mask)]
        consumers = rng.sample(consumers, rng.randrange(1, 4))
    for _ in range(nops):
        k = _pick(rng, kinds, weights)
        if k == "roundtrip":
            # export -> (restart) -> import -> use the imported object:
            # plain operations, so the history stays shrinkable
            f = rng.randrange(3)
            ops.append(["export", rng.randrange(8), f, True])
            if rng.random() < 0.3:
                ops.append(["restart"])
            ops.append(["import", f, _pick(rng, ["file", "simple", None],
                                           [3, 3, 1])])
            for _ in range(rng.randrange(1, 3)):
                ops.append(["use", -1, _pick(rng, consumers)])
            continue
        if k == "build":
            ops.append(["build", gen_spec(rng, tier)])
        elif k == "export":
            ops.append(["export", rng.randrange(8), rng.randrange(3),
                        rng.random() < 0.5])
        elif k == "restart":
            ops.append(["restart"])
        elif k == "import":
            ops.append(["import", rng.randrange(3),
                        _pick(rng, ["file", "simple", None], [3, 3, 1])])
        elif k == "use":
            ops.append(["use", rng.randrange(8), _pick(rng, consumers)])
        elif k == "close":
            ops.append(["close", rng.randrange(8)])
        elif k == "reexport":
            # import -> export again under another name (second generation)
            ops.append(["reexport", rng.randrange(8), rng.randrange(3)])
        else:
            spec = gen_spec(rng, tier)
            while spec["kind"] != "ptt":
                spec = gen_spec(rng, tier)
            # file index 3: a file the library names itself
            ops.append(["ptt_file", spec, rng.randrange(4),
                        _pick(rng, ["file", "simple"])])
    return {"ops": ops}


def shrink(case):
    """Deletion-closed op lists: drop one op at a time, then shrink specs."""
    ops = case["ops"]
    out = []
    for i in range(len(ops)):
        out.append({"ops": ops[:i] + ops[i + 1:]})
    for i, op in enumerate(ops):
        if op[0] in ("build", "ptt_file") and isinstance(op[1], dict):
            for key, lo in (("n", 1), ("chi", 1), ("steps", 2)):
                if op[1].get(key, lo) > lo:
                    spec = dict(op[1]); spec[key] = op[1][key] - 1
                    new = list(op); new[1] = spec
                    out.append({"ops": ops[:i] + [new] + ops[i + 1:]})
    return out


def prepare_worker():
    import oqupy  # noqa: F401
    import h5py  # noqa: F401
    warnings.simplefilter("ignore")


# ---------------------------------------------------------------------------

def build(spec):
    import oqupy
    if spec["kind"] == "hand":
        return c17.build_simple_pt(spec)
    return _ptt(spec, None)


def _bath(spec):
    import oqupy
    o = models.ops()
    c = spec["coupling"]
    op = 0.5 * o["z"] + 0.3 * o["x"] if c == "zx" else 0.5 * o[c]
    corr = oqupy.PowerLawSD(alpha=spec["alpha"], zeta=1.0, cutoff=3.0,
                            temperature=spec["temperature"])
    return oqupy.Bath(op, corr)


def _ptt(spec, filename):
    import oqupy
    pars = oqupy.TempoParameters(dt=0.1, epsrel=spec["epsrel"],
                                 dkmax=spec["dkmax"])
    return oqupy.pt_tempo_compute(
        _bath(spec), 0.0, (spec["steps"] + 0.5) * 0.1, pars,
        unique=spec.get("unique", False), process_tensor_file=filename,
        overwrite=True if filename else False, progress_type="silent",
        name="ptt", description="pt-tempo")


def consume(kind, pt):
    """Run a consumer of the process tensor; returns a numpy array."""
    import oqupy
    d = pt.hilbert_space_dimension
    rng = np.random.default_rng(11)
    h = rng.normal(size=(d, d))
    h = (h + h.T) / 2
    rho = np.zeros((d, d), dtype=complex)
    rho[0, 0] = 0.7
    rho[1, 1] = 0.3
    rho[0, 1] = rho[1, 0] = 0.2
    dt_kw = {} if pt.dt is not None else {"dt": 0.1}
    n = len(pt)
    if kind == "dynamics":
        dyn = oqupy.compute_dynamics(oqupy.System(h), rho, process_tensor=pt,
                                     progress_type="silent", **dt_kw)
        return np.array(dyn.states)
    if kind == "correlations":
        a = rng.normal(size=(d, d))
        _, corr = oqupy.compute_correlations(
            oqupy.System(h), pt, a, a.T, times_a=slice(0, min(2, n) + 1),
            times_b=slice(0, n + 1), initial_state=rho,
            progress_type="silent", **dt_kw)
        return np.nan_to_num(np.array(corr), nan=-7.0)
    if kind == "gradient":
        if pt.dt is None:
            raise _Skip("gradient needs dt")
        base = h

        def ham(x):
            return base * x
        system = oqupy.ParameterizedSystem(ham)
        params = np.array([[1.0 + 0.1 * i] for i in range(2 * n)])
        res = oqupy.state_gradient(
            system=system, initial_state=rho,
            target_derivative=np.eye(d, dtype=complex) / d + rho.T,
            process_tensors=[pt], parameters=params, progress_type="silent")
        return np.concatenate([np.array(res["gradient"]).ravel(),
                               np.array(res["final_state"]).ravel()])
    if kind == "with_field":
        def hamf(t, a):
            return h * (1.0 + 0.1 * t) + 0.2 * (a * np.eye(d, k=1)
                                                  + np.conj(a) * np.eye(d, k=-1))

        def eom(t, states, a):
            return -0.3 * a - 0.1j * np.trace(states[0] @ np.eye(d, k=1))
        mfs = oqupy.MeanFieldSystem(
            [oqupy.TimeDependentSystemWithField(hamf)], eom)
        dyn = oqupy.compute_dynamics_with_field(
            mfs, 0.5 + 0.2j, process_tensor_list=[pt],
            initial_state_list=[rho], subdiv_limit=None,
            progress_type="silent", **dt_kw)
        return np.concatenate([
            np.array(dyn.system_dynamics[0].states).ravel(),
            np.array(dyn.fields).ravel()])
    if kind == "multi_env":
        # the tensor under test next to an identical second environment
        dyn = oqupy.compute_dynamics(oqupy.System(h), rho,
                                     process_tensor=[pt, pt],
                                     progress_type="silent", **dt_kw)
        return np.array(dyn.states)
    if kind == "correlations_nt":
        a = rng.normal(size=(d, d))
        _, corr = oqupy.compute_correlations_nt(
            oqupy.System(h), pt, [a, a.T, a],
            ops_times=[0, slice(0, min(n, 2) + 1), slice(0, n + 1)],
            ops_order=["left", "right", "left"], initial_state=rho,
            progress_type="silent", **dt_kw)
        return np.nan_to_num(np.array(corr), nan=-7.0)
    if kind == "pt_tebd":
        chain = oqupy.SystemChain([d, d])
        chain.add_site_hamiltonian(0, h)
        chain.add_site_hamiltonian(1, h.T * 0.5)
        a = rng.normal(size=(d, d))
        chain.add_nn_hamiltonian(0, a + a.T, (a + a.T) * 0.3)
        mps = oqupy.AugmentedMPS([rho, rho.T.copy()])
        pars = oqupy.PtTebdParameters(dt=pt.dt if pt.dt else 0.1, order=2,
                                      epsrel=1e-13)
        tebd = oqupy.PtTebd(mps, chain, [pt, None], pars,
                            dynamics_sites=[0, 1])
        res = tebd.compute(n, progress_type="silent")
        return np.concatenate([np.array(res["dynamics"][0].states).ravel(),
                               np.array(res["dynamics"][1].states).ravel(),
                               np.array(res["norm"]).ravel()])
    raise ValueError(kind)


class _Skip(Exception):
    pass


def _close_enough(a, b, rtol):
    a = np.asarray(a)
    b = np.asarray(b)
    if a.shape != b.shape:
        return False
    scale = max(1.0, float(np.max(np.abs(b))) if b.size else 1.0)
    ok = bool(np.all(np.abs(a - b) <= rtol * scale))
    if ok and a.size:
        MARGIN[0] = max(MARGIN[0],
                        float(np.max(np.abs(a - b))) / (rtol * scale))
    return ok


class Entry:
    """A process tensor of the system under test + what the model knows."""

    def __init__(self, obj, ref, original, origin, tol):
        self.obj = obj            # SUT object (dropped at restart)
        self.ref = ref            # snapshot of the content as written
        self.original = original  # the model's own pristine object
        self.origin = origin      # 'built' | 'import:file' | ...
        self.tol = tol            # tolerance for consumer comparison
        self.closed = False


def run_case(case, dec):
    log = EventLog()
    disk = simdisk.SimDisk()
    simdisk.install(disk)
    import oqupy.process_tensor as ptm
    pool = []
    model_files = {}   # filename -> (ref snapshot, original object, tol)
    auto_names = []    # files the library named itself (temporary files)
    ref_results = {}   # (serial of original, consumer) -> array
    serials = []       # keeps every original alive: serial = index in here
    violations = []
    stats = {"imports": 0, "uses": 0, "exports": 0, "restarts": 0,
             "ptt_file": 0, "skipped": 0}

    def viol(cls, sig, detail):
        violations.append({"class": cls, "signature": sig, "detail": detail})

    def serial_of(original):
        for i, o in enumerate(serials):
            if o is original:
                return i
        serials.append(original)
        return len(serials) - 1

    def reference_result(original, kind):
        key = (serial_of(original), kind)
        if key not in ref_results:
            ref_results[key] = consume(kind, original)
        return ref_results[key]

    def check_use(entry, kind, where):
        try:
            want = reference_result(entry.original, kind)
        except _Skip:
            stats["skipped"] += 1
            return
        except Exception as e:  # noqa: BLE001 - consumer not applicable
            log.ev("use-ref-failed", kind, type(e).__name__)
            stats["skipped"] += 1
            return
        try:
            got = consume(kind, entry.obj)
        except Exception as e:  # noqa: BLE001
            viol("consumer_fails_on_imported", "%s/%s/%s" % (
                entry.origin, kind, type(e).__name__),
                "%s works on the original process tensor but raises %s: %s "
                "on the %s one (%s)" % (kind, type(e).__name__, str(e)[:150],
                                        entry.origin, where))
            return
        stats["uses"] += 1
        if not _close_enough(got, want, entry.tol):
            viol("consumer_result_differs", "%s/%s" % (entry.origin, kind),
                 "%s on the %s process tensor differs from the original by "
                 "%.3g (tolerance %.1g)" % (
                     kind, entry.origin,
                     float(np.max(np.abs(np.asarray(got) - np.asarray(want))))
                     if np.shape(got) == np.shape(want) else float("nan"),
                     entry.tol))

    def release_readers(fname):
        """Before a file is written again its readers are closed, as a user
        has to do (HDF5 refuses to truncate a file that is still open)."""
        for e in pool:
            if not e.closed and getattr(e.obj, "filename", None) == fname \
                    and hasattr(e.obj, "close"):
                try:
                    e.obj.close()
                except Exception:  # noqa: BLE001
                    pass
                e.closed = True
        disk.sync_closed()

    for op in case["ops"]:
        if len(violations) >= 2:
            break
        kind = op[0]
        if kind == "build":
            obj = build(op[1])
            pool.append(Entry(obj, c17.snapshot(obj), obj, "built", 1e-10))
            log.ev("build", op[1]["kind"], len(obj))
        elif kind == "export":
            if not pool:
                continue
            e = pool[op[1] % len(pool)]
            if not hasattr(e.obj, "export") or e.closed:
                continue
            fname = FILES[op[2]]
            overwrite = op[3]
            release_readers(fname)
            existed = disk.exists(fname)
            try:
                e.obj.export(fname, overwrite=overwrite)
                err = None
            except FileExistsError as ex:
                err = ex
            disk.sync_closed()
            if err is not None:
                if not existed or overwrite:
                    viol("export_failed", "export", repr(err))
                log.ev("export-refused", fname)
                continue
            if existed and not overwrite:
                viol("export_overwrote", "export",
                     "export(overwrite=False) replaced " + fname)
            model_files[fname] = (e.ref, e.original, e.tol)
            stats["exports"] += 1
            log.ev("export", fname, overwrite)
        elif kind == "restart":
            for e in pool:
                if hasattr(e.obj, "close") and not e.closed:
                    try:
                        e.obj.close()
                    except Exception:  # noqa: BLE001
                        pass
            pool = []
            disk.sync_closed()
            stats["restarts"] += 1
            log.ev("restart")
        elif kind == "import":
            fname = FILES[op[1]]
            if auto_names and (op[1] == 2 or fname not in model_files):
                # one of the files the library named itself, oldest first
                fname = auto_names[stats["imports"] % len(auto_names)]
            if fname not in model_files:
                continue
            ref, original, tol = model_files[fname]
            with warnings.catch_warnings(record=True) as w:
                warnings.simplefilter("always")
                try:
                    q = ptm.import_process_tensor(fname, op[2])
                except Exception as ex:  # noqa: BLE001
                    viol("import_failed", "import/%s" % op[2], repr(ex)[:300])
                    continue
                if any("corrupt" in str(x.message).lower() for x in w):
                    viol("import_warns_corrupt", "import/%s" % op[2],
                         "a completely written file warns on import")
            stats["imports"] += 1
            origin = "import:%s" % (op[2] or "file")
            diffs = c17.observe(q, ref, None)
            try:
                init = q.get_initial_tensor()
                if init is not None:
                    diffs.append("initial_tensor")
            except Exception as ex:  # noqa: BLE001
                diffs.append("initial_tensor(%s)" % type(ex).__name__)
            if diffs:
                viol("roundtrip_content_differs",
                     "%s/%s" % (origin, diffs[0].split("[")[0]),
                     "%s of %s: %s differ from what was exported" % (
                         origin, fname, ", ".join(diffs[:8])))
            pool.append(Entry(q, ref, original, origin, tol))
            log.ev("import", fname, str(op[2]), len(diffs))
        elif kind == "use":
            if not pool:
                continue
            e = pool[op[1] % len(pool)]
            if e.closed:
                continue
            check_use(e, op[2], "use")
            log.ev("use", e.origin, op[2])
        elif kind == "close":
            if not pool:
                continue
            e = pool[op[1] % len(pool)]
            if hasattr(e.obj, "close") and not e.closed:
                e.obj.close()
                e.closed = True
                disk.sync_closed()
                log.ev("close", e.origin)
        elif kind == "reexport":
            if not pool:
                continue
            e = pool[op[1] % len(pool)]
            if e.closed or not e.origin.startswith("import:simple"):
                continue
            fname = FILES[op[2]]
            release_readers(fname)
            try:
                e.obj.export(fname, overwrite=True)
            except Exception as ex:  # noqa: BLE001
                viol("export_failed", "reexport", repr(ex)[:300])
                continue
            disk.sync_closed()
            model_files[fname] = (e.ref, e.original, e.tol)
            stats["exports"] += 1
            log.ev("reexport", fname)
        elif kind == "ptt_file":
            spec, ptype = op[1], op[3]
            auto = op[2] >= len(FILES)
            mem = _ptt(spec, None)
            if auto:
                # process_tensor_file=True: a temporary file whose name the
                # library chooses; it stays on disk after close() and can
                # be imported by that name later
                fpt = _ptt(spec, True)
                fname = str(fpt.filename)
                if fname in model_files:
                    viol("temporary_name_reused", "ptt_file/auto",
                         "two file-backed computations in one process were "
                         "given the same temporary file " + fname)
                auto_names.append(fname)
            else:
                fname = FILES[op[2]]
                release_readers(fname)
                fpt = _ptt(spec, fname)
            stats["ptt_file"] += 1
            # two PT-TEMPO runs (file-backed, in memory) can differ by
            # ~100 x epsrel when a singular value sits on the threshold;
            # epsrel is 1e-9 or smaller here
            tol = 1e-6
            # the file-backed object itself, before closing
            e_live = Entry(fpt, None, mem, "ptt_file:live", tol)
            _compare_ptt(e_live, mem, viol)
            for cons in ("dynamics", "pt_tebd"):
                check_use(e_live, cons, "file-backed PT-TEMPO before close")
            ref_file = c17.snapshot(fpt)
            fpt.close()
            disk.sync_closed()
            model_files[fname] = (ref_file, mem, tol)
            q = ptm.import_process_tensor(fname, ptype)
            diffs = c17.observe(q, ref_file, None)
            if diffs:
                viol("roundtrip_content_differs",
                     "ptt_file:%s/%s" % (ptype, diffs[0].split("[")[0]),
                     "re-opened file-backed PT-TEMPO result differs from what "
                     "the computation held: " + ", ".join(diffs[:8]))
            e = Entry(q, ref_file, mem, "ptt_file:%s" % ptype, tol)
            _compare_ptt(e, mem, viol)
            pool.append(e)
            log.ev("ptt_file", fname, ptype)
    seen = set()
    uniq = []
    for v in violations:
        if (v["class"], v["signature"]) not in seen:
            seen.add((v["class"], v["signature"]))
            uniq.append(v)
    return {
        "violations": uniq, "notes": [], "digest": log.digest(),
        "events": len(log), "sim_ms": 0, "outcomes": ["done"],
        "probes": dict(stats), "faults_fired": {},
        "nontrivial": stats["imports"] + stats["ptt_file"] > 0,
        "key": "imports%d/uses%d" % (stats["imports"], stats["uses"]),
        "margin": MARGIN[0],
        "stats": stats,
    }


def _compare_ptt(entry, mem, viol):
    """File-backed vs in-memory PT-TEMPO: tensors may differ by gauge, so
    compare structure here and observables through consumers."""
    q = entry.obj
    checks = [("len", len(q), len(mem)), ("dt", q.dt, mem.dt),
              ("hs_dim", q.hilbert_space_dimension,
               mem.hilbert_space_dimension)]
    for label, a, b in checks:
        if a != b:
            viol("ptt_file_differs", "%s/%s" % (entry.origin, label),
                 "%s: file-backed %r vs in-memory %r" % (label, a, b))
    for label in ("transform_in", "transform_out"):
        a, b = getattr(q, label), getattr(mem, label)
        if (a is None) != (b is None) or (
                a is not None and not np.allclose(a, b, atol=1e-12)):
            viol("ptt_file_differs", "%s/%s" % (entry.origin, label),
                 label + " differs between file-backed and in-memory run")
    try:
        if list(q.get_bond_dimensions()) != list(mem.get_bond_dimensions()):
            # legitimately possible under last-bit noise at the truncation
            # threshold: reported as a probe only
            pass
    except Exception as e:  # noqa: BLE001
        viol("ptt_file_differs", "%s/bond_dimensions" % entry.origin, repr(e))


RULE = ("each run = one seeded operation history (build / export / restart / "
        "import as file|simple / use in a consumer / close / file-backed "
        "PT-TEMPO) on the simulated disk, compared after every operation with "
        "a reference model holding what was written; non-trivial = at least "
        "one import or file-backed computation happened; distinct = distinct "
        "event-log digests")
COMPONENTS = c17.COMPONENTS
ASSUMPTIONS = [
    "fault-free storage configuration (faults are C17's business)",
    "process tensors from different computations are compared through "
    "observables only (SVD gauge is not reproducible bit for bit)",
    "rank-3 and rank-4 representations of the same MPO tensor are identified",
]


def summarize(results):
    tot = {}
    for r in results:
        for k, v in (r.get("stats") or {}).items():
            tot[k] = tot.get(k, 0) + v
    return {"operations": tot,
            "largest_passing_deviation_over_tolerance": max(
                [r.get("margin", 0.0) for r in results] or [0.0])}
