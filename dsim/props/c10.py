"""C10 - PT-TEBD chain dynamics are exact where checkable, in every execution mode.

Engine: simexec (simulated executors on the baton scheduler).  The schedule
part - completion order of the gate tasks of a layer, line-level interleaving
of thread tasks, a stalled worker, the pickle boundary of process tasks - is
what the simulator decides; the sequential back-end is the reference model.
The exactness invariants of C10 (uncoupled chain = single-site computations,
two-site and commuting chains = dense propagator, norm, partial traces) are
evaluated on every run and transfer to the parallel modes through the
equality.  'All modes are usable' is decided by fresh interpreters with the
real pools (static_checks).
"""
import concurrent.futures
import os
import subprocess
import sys
import warnings

import numpy as np

from .. import simsched, simexec, models
from ..simsched import Sim

ID = "C10"
LEVEL = "exploration"
ENGINE = "simexec"

TIERS = {"quick": {"runs": 600, "budget": 75.0, "cap": 150.0},
         "thorough": {"runs": 100000, "budget": 900.0, "cap": 300.0}}

KINDS = ["generic", "uncoupled", "two_site", "commuting"]


def _pick(rng, seq, weights=None):
    if weights is None:
        return seq[rng.randrange(len(seq))]
    return rng.choices(seq, weights=weights, k=1)[0]


def _r(rng, lo, hi, nd=3):
    return round(rng.uniform(lo, hi), nd)


def gen_case(rng, tier="quick"):
    kind = _pick(rng, KINDS, [4, 3, 2, 2])
    if kind == "two_site":
        n = 2
    elif kind == "commuting":
        n = rng.randrange(2, 5)
    elif kind == "uncoupled":
        n = rng.randrange(3, 6)
    else:
        n = rng.randrange(2, 7)
    # a few long chains / long computations (layers with many gates, more
    # tasks than workers, anything done every N steps)
    big = None
    if kind in ("generic", "uncoupled") and rng.random() < 0.05:
        big = _pick(rng, ["sites", "steps"])
        n = rng.randrange(8, 13) if big == "sites" else (
            2 if kind == "generic" else rng.randrange(2, 4))
    # site dimensions may differ along the chain
    dims = [3 if (n <= 4 and rng.random() < 0.25) else 2 for _ in range(n)]
    if kind in ("two_site", "commuting"):
        while int(np.prod([x * x for x in dims])) > 1300:
            dims[dims.index(3)] = 2
    d = max(dims)
    steps = rng.randrange(1, 4 if n >= 5 else 5)
    if big == "steps":
        steps = rng.randrange(20, 80 if tier == "quick" else 140) \
            if n == 2 else rng.randrange(20, 45)
    case = {
        "kind": kind, "n": n, "d": d, "dims": dims, "steps": steps,
        "order": _pick(rng, [1, 2]), "dt": _pick(rng, [0.05, 0.1, 0.2]),
        "epsrel": _pick(rng, [1e-10, 1e-11]),
        "hseed": rng.randrange(1 << 30),
        "dissipation": rng.random() < 0.6,
        "pts": [_pick(rng, ["none", "tempo", "ancilla"], [3, 2, 2])
                for _ in range(n)],
        "modes": _pick(rng, [["multithread"], ["multiprocess"],
                             ["multithread", "multiprocess"]], [4, 2, 2]),
        "regime": _pick(rng, ["permuted", "interleaved", "stalled"],
                        [3, 4, 2]),
        "stall_index": rng.randrange(0, 3),
        "p_switch": _pick(rng, [0.02, 0.1, 0.4]),
        "initial": [rng.randrange(3) for _ in range(n)],
    }
    if kind in ("two_site", "commuting"):
        case["pts"] = ["none"] * n
    if kind == "generic":
        # mode agreement only: keep the numerics cheap
        case["epsrel"] = _pick(rng, [1e-8, 1e-9])
        keep = set(rng.sample(range(n), min(n, 2)))
        case["pts"] = [p if i in keep else "none"
                       for i, p in enumerate(case["pts"])]
        if n >= 5:
            case["steps"] = min(case["steps"], 2)
    else:
        # exactness kinds: truncation must only ever remove numerical zeros
        case["epsrel"] = _pick(rng, [1e-13, 1e-14])
    case["pts"] = [p if (p != "tempo" or dims[i] == 2) else "ancilla"
                   for i, p in enumerate(case["pts"])]
    singles = list(range(n))
    tuples = []
    if n >= 2:
        a = rng.randrange(0, n - 1)
        tuples.append([a, a + 1])
    if n >= 3 and rng.random() < 0.6:
        a = rng.randrange(0, n - 2)
        b = rng.randrange(a + 2, n)
        tuples.append([a, b])
    if n >= 3 and rng.random() < 0.3:
        tuples.append([0, 1, 2])
    case["tuples"] = tuples
    # single-site control operations (unitary kicks) at drawn steps
    ctrl = []
    if kind in ("generic", "uncoupled") and rng.random() < 0.5:
        seen = set()
        for _ in range(rng.randrange(1, 4)):
            c = [rng.randrange(n), rng.randrange(0, steps + 1),
                 bool(rng.randrange(2)), rng.randrange(1 << 16)]
            # never two controls on the same (site, step, pre/post): the
            # order in which stacked controls compose is C18's subject (and
            # differs between Control and ChainControl), not C10's
            if tuple(c[:3]) not in seen:
                seen.add(tuple(c[:3]))
                ctrl.append(c)
    if ctrl and rng.random() < 0.3:
        # the same kick twice in one slot: the two commute, so how stacked
        # controls are ordered does not matter - both must be applied
        ctrl.append(list(ctrl[rng.randrange(len(ctrl))]))
    case["controls"] = ctrl
    case["nn_diss"] = rng.random() < 0.4
    case["entry"] = _pick(rng, ["operators", "operators", "liouvillians"])
    case["one_tuples"] = rng.random() < 0.2
    case["staged_build"] = rng.random() < 0.25
    case["homogeneous"] = rng.random() < 0.35
    case["split"] = rng.random() < 0.4
    case["entangled_start"] = kind == "generic" and rng.random() < 0.3
    return case


def shrink(case):
    out = []
    if case["steps"] > 1:
        out.append(dict(case, steps=case["steps"] - 1))
    if len(case["modes"]) > 1:
        out.append(dict(case, modes=case["modes"][:1]))
        out.append(dict(case, modes=case["modes"][1:]))
    if case["n"] > 2 and case["kind"] in ("generic", "commuting"):
        n = case["n"] - 1
        out.append(dict(case, n=n, pts=case["pts"][:n],
                        dims=case["dims"][:n],
                        initial=case["initial"][:n],
                        tuples=[t for t in case["tuples"] if max(t) < n]))
    if any(p != "none" for p in case["pts"]):
        out.append(dict(case, pts=["none"] * case["n"]))
    if case["dissipation"]:
        out.append(dict(case, dissipation=False))
    if case["tuples"]:
        out.append(dict(case, tuples=case["tuples"][:-1]))
    if case.get("controls"):
        out.append(dict(case, controls=case["controls"][:-1]))
    if case["regime"] != "permuted":
        out.append(dict(case, regime="permuted"))
    for flag in ("split", "homogeneous", "staged_build", "entangled_start",
                 "one_tuples", "nn_diss"):
        if case.get(flag):
            out.append(dict(case, **{flag: False}))
    return out


def prepare_worker():
    import oqupy  # noqa: F401
    import oqupy.backends.pt_tebd_backend  # noqa: F401
    warnings.simplefilter("ignore")


# ---------------------------------------------------------------------------
# model building

def _herm(rng, d, scale=1.0):
    a = rng.normal(size=(d, d)) + 1j * rng.normal(size=(d, d))
    return scale * (a + a.conj().T) / 2


def _diag_herm(rng, d, scale=1.0):
    return np.diag(rng.normal(size=d) * scale).astype(complex)


def site_terms(case):
    """Plain description of the chain: site Hamiltonians, dissipators,
    couplings (lists of operator pairs)."""
    rng = np.random.default_rng(case["hseed"])
    n, dims = case["n"], case["dims"]
    diag = case["kind"] == "commuting"
    mk = _diag_herm if diag else _herm
    hs = [mk(rng, dims[i], 0.8) for i in range(n)]
    homog = case.get("homogeneous") and len(set(dims)) == 1
    if homog:
        # translation-invariant chain: every site and every bond carries
        # bit-identical terms (the usual physical case)
        hs = [hs[0].copy() for _ in range(n)]
    diss = []
    for i in range(n):
        d = dims[i]
        if homog and i > 0:
            diss.append([(op.copy(), g) for op, g in diss[0]])
            continue
        if not case["dissipation"]:
            diss.append([])
        elif diag:
            diss.append([(np.diag(rng.normal(size=d)).astype(complex),
                          float(abs(rng.normal()) * 0.3))])
        else:
            a = rng.normal(size=(d, d)) + 1j * rng.normal(size=(d, d))
            diss.append([(a / 2, float(abs(rng.normal()) * 0.3))])
    nn = []
    for i in range(n - 1):
        if homog and i > 0 and case["kind"] != "uncoupled":
            nn.append([(a.copy(), b.copy()) for a, b in nn[0]])
            continue
        if case["kind"] == "uncoupled":
            nn.append([])
        else:
            nn.append([(mk(rng, dims[i], 0.7), mk(rng, dims[i + 1], 0.7))
                       for _ in range(2)])
    nn_diss = []
    for i in range(n - 1):
        if case["kind"] == "commuting" and case["dissipation"] \
                and case.get("nn_diss"):
            d, d2 = dims[i], dims[i + 1]
            nn_diss.append([(np.diag(rng.normal(size=d)).astype(complex),
                             np.diag(rng.normal(size=d2)).astype(complex),
                             0.15)])
        elif case["kind"] in ("two_site", "generic") and \
                case["dissipation"] and (case["kind"] == "two_site"
                                         or case.get("nn_diss")):
            d, d2 = dims[i], dims[i + 1]
            a = rng.normal(size=(d, d)) + 1j * rng.normal(size=(d, d))
            b = rng.normal(size=(d2, d2)) + 1j * rng.normal(size=(d2, d2))
            nn_diss.append([(a / 2, b / 2, 0.2)])
        else:
            nn_diss.append([])
    return hs, diss, nn, nn_diss


def initial_states(case):
    out = []
    for i, k in enumerate(case["initial"]):
        d = case["dims"][i]
        rng = np.random.default_rng(1000 + 7 * i + k)
        a = rng.normal(size=(d, d)) + 1j * rng.normal(size=(d, d))
        rho = a @ a.conj().T
        if k == 0:
            rho = np.zeros((d, d), dtype=complex)
            rho[0, 0] = 1.0
        out.append(rho / np.trace(rho))
    return out


def ancilla_pt(d, steps, dt, seed):
    """Exact process tensor of a d-level system coupled to a qubit ancilla."""
    import oqupy
    from oqupy import operators as opr
    from scipy.linalg import expm
    rng = np.random.default_rng(seed)
    h = _herm(rng, 2 * d, 0.6)
    liou = -1j * opr.commutator(h)          # on (sys x anc), row-major vec
    u = expm(liou * dt)
    da = 2
    # vec index of rho_{(s a),(s' a')} -> reshape to (s, a, s', a')
    u = u.reshape(d, da, d, da, d, da, d, da)  # out (s a s' a'), in (...)
    # -> tensor[a_in (a a'), a_out, s_in (s s'), s_out]
    t = u.transpose(5, 7, 1, 3, 4, 6, 0, 2).reshape(da * da, da * da,
                                                    d * d, d * d)
    anc0 = np.zeros((da, da), dtype=complex)
    anc0[0, 0] = 1.0
    trace_a = np.identity(da, dtype=complex).reshape(-1)
    pt = oqupy.process_tensor.SimpleProcessTensor(
        hilbert_space_dimension=d, dt=dt, name="ancilla")
    for k in range(steps):
        tk = t
        if k == 0:
            tk = np.tensordot(anc0.reshape(-1), tk, axes=(0, 0))[None]
        if k == steps - 1:
            tk = np.tensordot(tk, trace_a, axes=(1, 0))
            tk = np.moveaxis(tk[..., None], -1, 1)
        pt.set_mpo_tensor(k, tk)
    pt.compute_caps()
    return pt


def process_tensors(case):
    import oqupy
    out = []
    cache = {}
    for i, kind in enumerate(case["pts"]):
        if kind == "none":
            out.append(None)
        elif kind == "ancilla":
            out.append(ancilla_pt(case["dims"][i], case["steps"], case["dt"],
                                  case["hseed"] % 1000 + i))
        else:
            key = i % 2
            if key not in cache:
                bath = models.make_bath("z" if key == 0 else "x",
                                        alpha=0.2 + 0.1 * key,
                                        temperature=0.5 * key)
                pars = oqupy.TempoParameters(dt=case["dt"], epsrel=1e-8,
                                             dkmax=3)
                cache[key] = oqupy.pt_tempo_compute(
                    bath, 0.0, (max(case["steps"], 2) + 0.5) * case["dt"],
                    pars, progress_type="silent")
            out.append(cache[key])
    return out


def control_superop(d, seed):
    """A unitary kick U rho U^dagger as a Liouville-space matrix."""
    from oqupy import operators as opr
    from scipy.linalg import expm
    rng = np.random.default_rng(seed)
    u = expm(1j * _herm(rng, d, 0.9))
    return opr.left_right_super(u, u.conj().T)


def chain_control(case):
    import oqupy
    if not case.get("controls"):
        return None
    cc = oqupy.ChainControl(list(case["dims"]))
    for site, step, post, seed in case["controls"]:
        if site < case["n"]:
            cc.add_single_site_control(
                control_superop(case["dims"][site], seed), site, step,
                post=post)
    return cc


def build_chain(case):
    import oqupy
    hs, diss, nn, nn_diss = site_terms(case)
    n = case["n"]
    chain = oqupy.SystemChain(list(case["dims"]))
    entry = case.get("entry", "operators")
    from oqupy import operators as opr
    if case.get("staged_build"):
        # the chain object is used by a computation while it is still being
        # assembled (only part of the site terms are there yet)
        half = max(1, n // 2)

        def add_early(i, sign):
            # through the same kind of entry point as the rest of the build
            if entry == "liouvillians":
                chain.add_site_liouvillian(
                    i, sign * _site_liouvillian(hs[i], []))
            else:
                chain.add_site_hamiltonian(i, sign * hs[i])
        for i in range(half):
            add_early(i, 1.0)
        early = oqupy.PtTebd(
            oqupy.AugmentedMPS(initial_states(case)), chain, [None] * n,
            oqupy.PtTebdParameters(dt=case["dt"], order=case["order"],
                                   epsrel=case["epsrel"]))
        early.compute(1, progress_type="silent")
        for i in range(half):
            add_early(i, -1.0)
    for i in range(n):
        if entry == "liouvillians":
            # the same generator handed over through the Liouvillian entry
            # points (built here from the operators, not by SystemChain)
            chain.add_site_liouvillian(i, _site_liouvillian(hs[i], diss[i]))
            continue
        chain.add_site_hamiltonian(i, hs[i])
        for op, g in diss[i]:
            chain.add_site_dissipation(i, op, g)
    for i in range(n - 1):
        for a, b in nn[i]:
            if entry == "liouvillians":
                chain.add_nn_liouvillian(i, -1j * (
                    np.kron(opr.left_super(a), opr.left_super(b))
                    - np.kron(opr.right_super(a), opr.right_super(b))))
            else:
                chain.add_nn_hamiltonian(i, a, b)
        for a, b, g in nn_diss[i]:
            chain.add_nn_dissipation(i, a, b, g)
    return chain


def run_tebd(case, pts, parallel):
    import oqupy
    chain = build_chain(case)
    mps = oqupy.AugmentedMPS(initial_states(case))
    pars = oqupy.PtTebdParameters(dt=case["dt"], order=case["order"],
                                  epsrel=case["epsrel"])
    if case.get("entangled_start"):
        # a correlated initial chain state with non-trivial lambdas: the
        # exported state of a short sequential run without environments
        pre = oqupy.PtTebd(mps, chain, [None] * case["n"], pars)
        pre.compute(2, progress_type="silent")
        exported = pre.get_augmented_mps()
        mps = oqupy.AugmentedMPS([np.array(g) for g in exported.gammas],
                                 [np.array(x) for x in exported.lambdas])
    sites = list(range(case["n"])) + [tuple(t) for t in case["tuples"]]
    if case.get("one_tuples"):
        sites += [(i,) for i in range(case["n"])]
    cfg = {} if parallel is None else {"parallel": parallel}
    tebd = oqupy.PtTebd(mps, chain, pts, pars, dynamics_sites=sites,
                        chain_control=chain_control(case),
                        backend_config=cfg)
    if case.get("split") and case["steps"] >= 2:
        # the computation continued in chunks on the same object
        tebd.compute(max(1, case["steps"] // 2), progress_type="silent")
        tebd.compute(case["steps"] // 2, progress_type="silent")   # no-op
    res = tebd.compute(case["steps"], progress_type="silent")
    out = {"time": np.array(res["time"]), "norm": np.array(res["norm"])}
    for s in sites:
        out[str(s)] = np.array(res["dynamics"][s].states)
    return out


# ---------------------------------------------------------------------------
# dense references

def _site_liouvillian(h, diss):
    import oqupy
    return oqupy.system._liouvillian(h, [g for _, g in diss],
                                     [op for op, _ in diss])


def dense_reference(case):
    """expm of the full Liouvillian, built independently of SystemChain."""
    from oqupy import operators as opr
    from scipy.linalg import expm
    hs, diss, nn, nn_diss = site_terms(case)
    n, dims = case["n"], case["dims"]
    dds = [x * x for x in dims]
    dim = int(np.prod(dds))
    full = np.zeros((dim, dim), dtype=complex)

    def embed(op, first, span):
        left = np.identity(int(np.prod(dds[:first])))
        right = np.identity(int(np.prod(dds[first + span:])))
        return np.kron(np.kron(left, op), right)
    for i in range(n):
        full += embed(_site_liouvillian(hs[i], diss[i]), i, 1)
    for i in range(n - 1):
        for a, b in nn[i]:
            term = -1j * (np.kron(opr.left_super(a), opr.left_super(b))
                          - np.kron(opr.right_super(a), opr.right_super(b)))
            full += embed(term, i, 2)
        for a, b, g in nn_diss[i]:
            ab = np.kron(a, b)            # operator on the two sites
            # Lindblad dissipator of A (x) B in the site-major basis
            la, ra = opr.left_super(a), opr.right_super(a.conj().T)
            lb, rb = opr.left_super(b), opr.right_super(b.conj().T)
            sandwich = np.kron(la @ ra, lb @ rb)
            ada, bdb = a.conj().T @ a, b.conj().T @ b
            anti = 0.5 * (np.kron(opr.left_super(ada), opr.left_super(bdb))
                          + np.kron(opr.right_super(ada),
                                    opr.right_super(bdb)))
            full += embed(g * (sandwich - anti), i, 2)
            del ab
    rho0 = initial_states(case)
    vec = np.array([1.0 + 0j])
    for r in rho0:
        vec = np.kron(vec, r.reshape(-1))
    prop = expm(full * case["dt"])
    out = {}
    sites = [[i] for i in range(n)] + case["tuples"]
    states = [vec]
    for _ in range(case["steps"]):
        states.append(prop @ states[-1])
    for s in sites:
        track = []
        for v in states:
            t = v.reshape(dds)
            # contract every site not in s with the trace vector
            for i in reversed(range(n)):
                if i not in s:
                    tr = np.identity(dims[i], dtype=complex).reshape(-1)
                    t = np.tensordot(t, tr, axes=(i, 0))
            k = len(s)
            shp = []
            for i in s:
                shp += [dims[i], dims[i]]
            t = t.reshape(shp)
            perm = [2 * j for j in range(k)] + [2 * j + 1 for j in range(k)]
            big = int(np.prod([dims[i] for i in s]))
            track.append(t.transpose(perm).reshape(big, big))
        key = str(s[0]) if len(s) == 1 else str(tuple(s))
        out[key] = np.array(track)
    return out


def single_site_reference(case, pts):
    """Uncoupled chain: every site is an independent compute_dynamics."""
    import oqupy
    hs, diss, _, _ = site_terms(case)
    rho0 = initial_states(case)
    out = {}
    for i in range(case["n"]):
        system = oqupy.System(hs[i], gammas=[g for _, g in diss[i]],
                              lindblad_operators=[op for op, _ in diss[i]])
        control = None
        for site, step, post, seed in case.get("controls") or []:
            if site == i:
                if control is None:
                    control = oqupy.Control(case["dims"][i])
                control.add_single(step, control_superop(case["dims"][i],
                                                         seed), post=post)
        dyn = oqupy.compute_dynamics(
            system, rho0[i], dt=case["dt"], num_steps=case["steps"],
            process_tensor=pts[i], control=control, progress_type="silent")
        out[str(i)] = np.array(dyn.states)
    # The chain state is the product of the site states, so the reduced state
    # of site i carries the traces of all other sites.  Those are 1 only up
    # to the accuracy of the process tensors themselves (a PT-TEMPO tensor
    # computed with epsrel 1e-8 is trace preserving to ~1e-9).
    traces = {k: np.trace(v, axis1=1, axis2=2) for k, v in out.items()}
    for k in out:
        factor = np.ones(len(out[k]), dtype=complex)
        for j, tr in traces.items():
            if j != k:
                factor = factor * tr
        out[k] = out[k] * factor[:, None, None]
    return out


# ---------------------------------------------------------------------------

def _install_sim(sim, case):
    import oqupy.backends.pt_tebd_backend as B
    simsched.install(sim)
    simexec.install_executors(B)
    simsched.adopt_module_sync(B)
    codes = simsched.code_objects_of(B)

    def on_line(code, line):
        s = simsched.SIM
        if s is None or not s.active or not s.holder_is_caller():
            return
        s.yield_point("%s:%d" % (code.co_name, line), clock_ok=False)
    simsched.enable_line_events(codes, on_line)
    return codes


def _max_diff(a, b):
    if a.shape != b.shape:
        return float("inf")
    return float(np.max(np.abs(a - b))) if a.size else 0.0


def run_case(case, dec):
    n, d = case["n"], case["d"]
    tol_modes = max(1e-9, 100 * case["epsrel"])
    tol_exact = 1e-9
    violations = []
    stats = {"gate_tasks": 0, "pools": 0, "switches": 0, "max_mode_diff": 0.0,
             "max_exact_err": 0.0}

    def viol(cls, sig, detail):
        violations.append({"class": cls, "signature": sig, "detail": detail})

    pts = process_tensors(case)
    try:
        seq = run_tebd(case, pts, None)
    except Exception as e:  # noqa: BLE001 - the back-end itself is unusable
        import hashlib
        return {
            "violations": [{
                "class": "sequential_mode_raises",
                "signature": "%s/%s" % (case["kind"], type(e).__name__),
                "detail": "sequential PT-TEBD raised %s: %s" % (
                    type(e).__name__, str(e)[:200])}],
            "notes": [], "digest": "sha256:" + hashlib.sha256(
                type(e).__name__.encode()).hexdigest()[:24],
            "events": 0, "sim_ms": 0, "outcomes": ["raised"], "probes": {},
            "faults_fired": {}, "nontrivial": False, "key": "raised",
            "orders": [], "max_mode_diff": 0.0, "max_exact_err": 0.0}
    keys = [k for k in seq if k not in ("time", "norm")]

    # -- invariants on the sequential run
    nerr = float(np.max(np.abs(seq["norm"] - 1.0)))
    # truncation at epsrel and approximate (PT-TEMPO, epsrel 1e-8) process
    # tensors limit how well the trace can be preserved
    tol_norm = max(1e-9, 300 * case["epsrel"])
    if "tempo" in case["pts"]:
        # a PT-TEMPO tensor computed with epsrel 1e-8 preserves the trace to
        # ~1e-8 per step: the trace error of the *input* grows with the
        # number of steps and of such tensors (observed 1.3e-6 after 91
        # steps with two of them); the chain itself is judged against the
        # single-site computations with the same tensors below
        tol_norm = max(tol_norm, 1e-6, 5e-8 * case["steps"]
                       * case["pts"].count("tempo"))
    if nerr > tol_norm:
        viol("norm_not_one", "%s/n%d" % (case["kind"], n),
             "|norm - 1| = %.3g (tolerance %.2g)" % (nerr, tol_norm))
    for t in case["tuples"]:
        big = seq[str(tuple(t))]
        k = len(t)
        tdims = [case["dims"][i] for i in t]
        for pos, site in enumerate(t):
            red = big.reshape([len(big)] + tdims + tdims)
            # trace out every factor but `pos`
            for j in reversed(range(k)):
                if j != pos:
                    red = np.trace(red, axis1=1 + j,
                                   axis2=1 + j + red.ndim // 2)
            err = _max_diff(red, seq[str(site)])
            stats["max_exact_err"] = max(stats["max_exact_err"], err)
            if err > tol_exact:
                viol("partial_trace_inconsistent",
                     "%s/tuple%d" % (case["kind"], k),
                     "reduced state of site %d from sites %s differs from "
                     "the single-site record by %.3g" % (site, t, err))
    if case.get("one_tuples"):
        for i in range(n):
            err = _max_diff(seq[str((i,))], seq[str(i)])
            if err > 1e-12:
                viol("partial_trace_inconsistent", "%s/tuple1" % case["kind"],
                     "site %d recorded as (%d,) differs from the record of "
                     "%d by %.3g" % (i, i, i, err))
    if case["kind"] == "uncoupled":
        ref = single_site_reference(case, pts)
        for k in ref:
            err = _max_diff(seq[k], ref[k])
            stats["max_exact_err"] = max(stats["max_exact_err"], err)
            if err > tol_exact:
                viol("uncoupled_chain_differs_from_single_site",
                     "uncoupled/n%d/order%d" % (n, case["order"]),
                     "site %s of an uncoupled chain differs from "
                     "compute_dynamics with the same process tensor by %.3g"
                     % (k, err))
                break
    if case["kind"] in ("two_site", "commuting"):
        ref = dense_reference(case)
        for k in ref:
            err = _max_diff(seq[k], ref[k])
            stats["max_exact_err"] = max(stats["max_exact_err"], err)
            if err > tol_exact:
                viol("chain_differs_from_dense_propagator",
                     "%s/n%d/order%d" % (case["kind"], n, case["order"]),
                     "record %s differs from expm of the full Liouvillian by "
                     "%.3g (tolerance %.2g)" % (k, err, tol_exact))
                break

    # -- schedules: the parallel modes under the simulator
    p_switch = {"permuted": 0.0, "interleaved": case["p_switch"],
                "stalled": case["p_switch"]}[case["regime"]]
    sim = Sim(dec, p_switch=p_switch, p_clock=0.0)
    sim.stall_index = case["stall_index"] if case["regime"] == "stalled" \
        else None
    sim.perm_index = case.get("perm_index")
    codes = _install_sim(sim, case)
    orders = set()
    try:
        for mode in case["modes"]:
            if violations:
                break
            sim.active = True
            try:
                par = run_tebd(case, pts, mode)
                err = None
            except Exception as e:  # noqa: BLE001
                err = e
            finally:
                sim.active = False
            if err is not None:
                viol("parallel_mode_raises", "%s/%s" % (
                    mode, type(err).__name__),
                    "backend_config parallel=%r raised %s: %s" % (
                        mode, type(err).__name__, str(err)[:200]))
                continue
            for k in ["time", "norm"] + keys:
                diff = _max_diff(par[k], seq[k])
                stats["max_mode_diff"] = max(stats["max_mode_diff"], diff)
                if diff > tol_modes:
                    viol("parallel_mode_differs", "%s/%s" % (
                        mode, case["regime"]),
                        "%s differs between sequential and %s execution by "
                        "%.3g (tolerance %.2g)" % (k, mode, diff, tol_modes))
                    break
    finally:
        simsched.disable_line_events(codes)
    # completion orders seen (per pool)
    cur = {}
    for e in sim.log.events:
        if e[0] == "task-done":
            name = e[1]
            pool = name.split("t")[0].split("x")[0]
            cur.setdefault(pool, []).append(name)
    for pool, names in cur.items():
        idx = tuple(int(x.replace("x", "t").split("t")[1]) for x in names)
        if len(idx) > 1:
            orders.add(idx)
        stats["gate_tasks"] += len(idx)
    stats["pools"] = len(sim.pools)
    stats["switches"] = len([e for e in sim.log.events if e[0] == "switch"])
    unshut = [p for p in sim.pools if not p.shut]
    if unshut:
        viol("executor_not_shut_down", "pools",
             "%d executor(s) left running" % len(unshut))
    return {
        "violations": violations[:2], "notes": [], "digest": sim.log.digest(),
        "events": len(sim.log), "sim_ms": 0, "outcomes": [case["kind"]],
        "probes": {"gate_tasks": stats["gate_tasks"],
                   "pools": stats["pools"],
                   "context_switches": stats["switches"],
                   "non_identity_completion_orders": len(
                       [o for o in orders if list(o) != sorted(o)])},
        "faults_fired": {"stalled_worker": 1 if case["regime"] == "stalled"
                         else 0,
                         "reordered_completion": len(
                             [o for o in orders if list(o) != sorted(o)])},
        "nontrivial": stats["gate_tasks"] > 0,
        "key": "%s/n%d/%s" % (case["kind"], n, case["regime"]),
        "orders": sorted(str(o) for o in orders)[:50],
        "max_mode_diff": stats["max_mode_diff"],
        "max_exact_err": stats["max_exact_err"],
    }


# ---------------------------------------------------------------------------
# usability of the real pools in a fresh interpreter

_USABILITY_SNIPPET = r"""
import sys, os
os.environ['OMP_NUM_THREADS']='1'
sys.path.insert(0, %(src)r)
import warnings; warnings.simplefilter('ignore')
import numpy as np
import oqupy
assert os.path.realpath(oqupy.__file__).startswith(os.path.realpath(%(src)r))
o = oqupy.operators
def run(parallel, n):
    chain = oqupy.SystemChain([2] * n)
    for i in range(n):
        chain.add_site_hamiltonian(i, 0.3*o.sigma('z') + 0.2*o.sigma('x'))
    for i in range(n - 1):
        chain.add_nn_hamiltonian(i, 0.5*o.sigma('x'), o.sigma('x'))
        chain.add_nn_hamiltonian(i, 0.4*o.sigma('y'), o.sigma('y'))
    mps = oqupy.AugmentedMPS([o.spin_dm('up')] + [o.spin_dm('down')]*(n-1))
    pars = oqupy.PtTebdParameters(dt=0.1, order=2, epsrel=1e-10)
    cfg = {} if parallel is None else {'parallel': parallel}
    t = oqupy.PtTebd(mps, chain, [None]*n, pars,
                     dynamics_sites=list(range(n)), backend_config=cfg)
    r = t.compute(2, progress_type='silent')
    return np.concatenate([r['dynamics'][i].states.ravel() for i in range(n)])
if __name__ == '__main__':
    diff = 0.0
    for n in (4, 2, 3):      # 2 sites: the odd layer of gates is empty
        a = run(None, n)
        b = run(%(mode)r, n)
        diff = max(diff, float(np.max(np.abs(a-b))))
    print('MAXDIFF %%.3e' %% diff)
"""


def static_checks(tier, seed):
    src = os.environ.get("OQUPY_SRC", "/repo")
    violations = []
    report = {}
    for mode in ("multithread", "multiprocess"):
        code = _USABILITY_SNIPPET % {"src": src, "mode": mode}
        try:
            p = subprocess.run(
                [sys.executable, "-c", code], capture_output=True, text=True,
                timeout=240, cwd="/", env=dict(os.environ,
                                               PYTHONPATH=""))
            out = p.stdout.strip().splitlines()
            line = [x for x in out if x.startswith("MAXDIFF")]
            if p.returncode != 0 or not line:
                err = (p.stderr.strip().splitlines() or ["?"])[-1]
                violations.append({
                    "class": "parallel_mode_unusable",
                    "signature": "fresh-interpreter/%s" % mode,
                    "detail": "backend_config={'parallel': %r} fails in a "
                              "fresh interpreter with the real executor: %s"
                              % (mode, err[:300])})
                report[mode] = "failed: " + err[:200]
            else:
                diff = float(line[0].split()[1])
                report[mode] = "ok, max diff to sequential %.2e" % diff
                if diff > 1e-9:
                    violations.append({
                        "class": "parallel_mode_differs",
                        "signature": "fresh-interpreter/%s" % mode,
                        "detail": "real %s pool differs from sequential by "
                                  "%.3g" % (mode, diff)})
        except subprocess.TimeoutExpired:
            violations.append({
                "class": "parallel_mode_unusable",
                "signature": "fresh-interpreter/%s" % mode,
                "detail": "real %s pool did not finish within 240 s" % mode})
            report[mode] = "timeout"
    return {"violations": violations, "report": {"real_pools": report}}


RULE = ("each run = one seeded chain (2..6 sites, d in {2,3}, random site "
        "Hamiltonians/dissipators/couplings, process tensors per site none | "
        "PT-TEMPO | exact ancilla, order 1|2) run sequentially (reference) "
        "and under simulated thread/process pools with seeded completion "
        "orders, line-level interleaving or a stalled worker; exactness "
        "invariants evaluated on the sequential run; non-trivial = at least "
        "one gate task ran under the simulator; distinct = distinct "
        "event-log digests (schedules)")
COMPONENTS = {
    "real": ["oqupy PT-TEBD front-end and back-end, gate computation",
             "tensornetwork/numpy", "process-pool tasks in forked children "
             "with pickled arguments and results",
             "real ThreadPoolExecutor/ProcessPoolExecutor in the "
             "fresh-interpreter usability check"],
    "stub": ["concurrent.futures executors -> SimThreadPool/SimProcessPool",
             "OS scheduling of gate tasks -> seeded decisions at LINE events "
             "of oqupy.backends.pt_tebd_backend"],
}
ASSUMPTIONS = [
    "sequential execution is the reference model; invariants checked on it "
    "transfer to the parallel modes through the equality check",
    "bond dimensions are not compared (a singular value on the truncation "
    "threshold may fall either side under last-bit noise)",
    "dense references are built from the operators directly, not from "
    "SystemChain's Liouvillians",
]


def summarize(results):
    orders = set()
    kinds = {}
    md = 0.0
    me = 0.0
    for r in results:
        orders.update(r.get("orders", []))
        k = r.get("key", "?").split("/")[0]
        kinds[k] = kinds.get(k, 0) + 1
        md = max(md, r.get("max_mode_diff", 0.0))
        me = max(me, r.get("max_exact_err", 0.0))
    return {"distinct_completion_orders": len(orders), "kinds": kinds,
            "max_mode_diff_seen": md, "max_exact_err_seen": me}


# ---------------------------------------------------------------------------
# completion orders of the gates of a layer, enumerated: every permutation
# (the same permutation index for every layer of the run) for chains whose
# layers hold two or three gates

def enumerated_cases(tier):
    import math
    out = []
    lengths = (4, 6) if tier == "quick" else (4, 5, 6, 7)
    for n in lengths:
        gates = n // 2                    # gates in the larger layer
        for k in range(math.factorial(gates)):
            for mode in ("multithread", "multiprocess"):
                for order in ((2,) if tier == "quick" else (1, 2)):
                    out.append({
                        "kind": "generic", "n": n, "d": 2, "dims": [2] * n,
                        "steps": 1, "order": order, "dt": 0.1,
                        "epsrel": 1e-9, "hseed": 1234 + n,
                        "dissipation": True,
                        "pts": ["none"] * n, "modes": [mode],
                        "regime": "permuted", "stall_index": 0,
                        "p_switch": 0.0, "initial": [1] * n,
                        "tuples": [[0, 1], [1, n - 1]], "controls": [],
                        "perm_index": k})
    return out
