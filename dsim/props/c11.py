"""C11 - the Gibbs-state computation returns the exact reduced thermal state.

What a simulator can decide of C11 is its *history* clause: any number and
order of compute() / get_state() / get_dynamics() calls on one object.  The
inputs (dimension, Hamiltonian, spectral density, temperature, number of
steps) are drawn per run as workload variation and compared with closed-form
reference models; they are sampled, not decided (DESIGN.md 4.6).
"""
import warnings

import numpy as np

from ..core import EventLog

ID = "C11"
LEVEL = "exploration"
ENGINE = "opmachine"

TIERS = {"quick": {"runs": 4000, "budget": 60.0, "cap": 120.0},
         "thorough": {"runs": 400000, "budget": 900.0, "cap": 300.0}}


def _pick(rng, seq, weights=None):
    if weights is None:
        return seq[rng.randrange(len(seq))]
    return rng.choices(seq, weights=weights, k=1)[0]


def _r(rng, lo, hi, nd=3):
    return round(rng.uniform(lo, hi), nd)


def gen_case(rng, tier="quick"):
    kind = _pick(rng, ["commuting", "zero", "weak", "covariance"],
                 [5, 3, 2, 3])
    d = _pick(rng, [2, 3, 4], [3, 2, 1])
    m = {"kind": kind, "d": d,
         "temperature": _r(rng, 0.4, 3.0) if rng.random() < 0.8
         else _pick(rng, [0.15, 0.25, 4.0, 6.0]),
         "n_steps": rng.randrange(2, 9) if rng.random() < 0.85
         else rng.randrange(9, 41),
         "_long": rng.random() < float(__import__("os").environ.get(
             "C11_LONG_P", "0.015")),
         "epsrel": _pick(rng, [1e-9, 1e-10]),
         "zeta": _pick(rng, [1.0, 2.0, 3.0]),
         "cutoff": _r(rng, 1.0, 4.0),
         "cutoff_type": _pick(rng, ["exponential", "gaussian", "hard"]),
         "hseed": rng.randrange(1 << 30)}
    if m.pop("_long") and d < 4:
        # many imaginary-time steps (nothing in the property limits them)
        m["n_steps"] = _pick(rng, [64, 65, 100, 128, 129, 131, 150, 200,
                                   257] if d == 2 else [64, 65])
    if kind == "commuting":
        m["alpha"] = _r(rng, 0.05, 0.6)
        m["energies"] = [_r(rng, -1.5, 1.5) for _ in range(d)]
        m["coupling"] = [_r(rng, -1.0, 1.0) for _ in range(d)]
        if rng.random() < 0.4:
            # exactly degenerate coupling eigenvalues / energies, zeros and
            # sign-symmetric pairs (the degeneracy bookkeeping of the
            # imaginary-time back-end)
            grid = [-1.0, -0.5, 0.0, 0.5, 1.0]
            m["coupling"] = [_pick(rng, grid) for _ in range(d)]
            if rng.random() < 0.5:
                m["energies"] = [_pick(rng, grid) for _ in range(d)]
    elif kind == "zero":
        m["alpha"] = _pick(rng, [0.0, 0.3])
        m["coupling"] = [0.0] * d if m["alpha"] else \
            [_r(rng, -1.0, 1.0) for _ in range(d)]
        m["complex"] = rng.random() < 0.6
    elif kind == "weak":
        m["alpha"] = _pick(rng, [1e-5, 1e-6])
        m["coupling"] = [_r(rng, -1.0, 1.0) for _ in range(d)]
        m["complex"] = rng.random() < 0.6
    else:
        # strong coupling, H not commuting with the coupling operator; the
        # complex Hamiltonian is U H U^dagger with a diagonal phase matrix U
        # (which commutes with the diagonal coupling operator), so the exact
        # state is U rho U^dagger whatever the coupling strength
        m["alpha"] = _r(rng, 0.05, 0.5)
        m["coupling"] = [_r(rng, -1.0, 1.0) for _ in range(d)]
        m["complex"] = True
        m["phases"] = [_r(rng, 0.0, 6.28) for _ in range(d)]
        m["n_steps"] = rng.randrange(2, 7)
    if d == 4 and kind not in ("commuting", "zero") and m["n_steps"] > 12:
        # bond dimensions: a non-commuting d=4 model with more than ~14
        # imaginary-time steps takes minutes (measured: 16 steps 48 s, 20
        # steps 108 s, 31 steps > 400 s); nothing would be learned from it
        m["n_steps"] = 12
    # a constant added to the Hamiltonian changes nothing physically, but it
    # moves every Boltzmann weight by exp(-shift/T): relative truncations
    # must keep working when all weights are tiny (or huge)
    m["shift"] = _pick(rng, [0.0, 0.0, 0.0, 2.0, 5.0, -3.0])
    ops = []
    for _ in range(rng.randrange(2, 8)):
        ops.append([_pick(rng, ["compute", "get_state", "get_dynamics"],
                          [3, 4, 1])])
    ops.append(["compute"])
    ops.append(["get_state"])
    case = {"model": m, "ops": ops}
    if rng.random() < 0.5:
        # other Gibbs computations earlier in the same process: same bath
        # with another number of steps, another temperature, another
        # coupling strength (process-wide memo state must not leak)
        pre = []
        for _ in range(rng.randrange(1, 3)):
            v = _pick(rng, ["n_steps", "temperature", "alpha", "coupling",
                            "hamiltonian"])
            if v == "hamiltonian":
                # the same bath, temperature and number of steps with
                # another system Hamiltonian only
                pre.append({"hseed": rng.randrange(1 << 30),
                            "energies": [_r(rng, -1.5, 1.5)
                                         for _ in range(d)]}
                           if kind == "commuting" else
                           {"hseed": rng.randrange(1 << 30)})
            elif v == "n_steps":
                pre.append({"n_steps": _pick(
                    rng, [x for x in range(2, 10) if x != m["n_steps"]])})
            elif v == "temperature":
                pre.append({"temperature": _r(rng, 0.4, 3.0)})
            elif v == "alpha":
                pre.append({"alpha": _r(rng, 0.05, 0.6)})
            else:
                pre.append({"coupling": [_r(rng, -1.0, 1.0)
                                         for _ in range(d)]})
        for v in pre:
            # the prelude is a disturbance, not a workload: a strongly
            # coupled low-temperature variant of a many-step model in
            # dimension 4 can take minutes (bond dimensions), so the
            # variants of long models use few steps
            if "n_steps" not in v and m["n_steps"] > 8 \
                    and not ("hseed" in v and m["n_steps"] <= 40
                             and (d < 4 or kind in ("commuting", "zero"))):
                v["n_steps"] = 8
        case["prelude"] = pre
    return case


def shrink(case):
    out = []
    ops = case["ops"]
    if case.get("prelude"):
        out.append({"model": case["model"], "ops": ops,
                    "prelude": case["prelude"][:-1]})
    keep = {"prelude": case["prelude"]} if case.get("prelude") else {}
    for i in range(len(ops)):
        out.append(dict({"model": case["model"],
                         "ops": ops[:i] + ops[i + 1:]}, **keep))
    m = case["model"]
    if m["n_steps"] > 8:
        out.append({"model": dict(m, n_steps=m["n_steps"] // 2), "ops": ops})
    if m["n_steps"] > 2:
        out.append({"model": dict(m, n_steps=m["n_steps"] - 1), "ops": ops})
    if m.get("complex"):
        out.append({"model": dict(m, complex=False), "ops": ops})
    return out


def prepare_worker():
    import oqupy  # noqa: F401
    warnings.simplefilter("ignore")


def hamiltonian(m):
    d = m["d"]
    if m["kind"] == "commuting":
        return np.diag(np.array(m["energies"], dtype=complex))
    rng = np.random.default_rng(m["hseed"])
    a = rng.normal(size=(d, d))
    if m["kind"] == "covariance":
        h = (a + a.T) / 2
        if m.get("rotated", True):
            u = np.diag(np.exp(1j * np.array(m["phases"])))
            h = u @ h @ u.conj().T
        return h
    if m.get("complex"):
        if m["hseed"] % 4 == 0:
            # purely imaginary couplings (sigma_y like) on a real diagonal
            b = rng.normal(size=(d, d))
            return np.diag(np.diag(a)) + 1j * (b - b.T) / 2
        a = a + 1j * rng.normal(size=(d, d))
    return (a + a.conj().T) / 2


def build(m):
    import oqupy
    shift = m.get("shift", 0.0) * np.identity(m["d"])
    corr = oqupy.PowerLawSD(alpha=m["alpha"], zeta=m["zeta"],
                            cutoff=m["cutoff"], cutoff_type=m["cutoff_type"],
                            temperature=m["temperature"])
    bath = oqupy.Bath(np.diag(np.array(m["coupling"], dtype=complex)), corr)
    system = oqupy.System(hamiltonian(m) + shift)
    pars = oqupy.GibbsParameters(n_steps=m["n_steps"], epsrel=m["epsrel"])
    return oqupy.GibbsTempo(system, bath, pars), corr


def reorganisation_energy(corr, m):
    """lambda = int_0^inf J(w)/w dw (numerical quadrature)."""
    from scipy import integrate
    upper = m["cutoff"] if m["cutoff_type"] == "hard" else np.inf
    val, _ = integrate.quad(
        lambda w: float(np.real(corr.spectral_density(w))) / w, 0.0, upper,
        epsabs=1e-13, epsrel=1e-11, limit=400)
    return val


def exact_state(m, corr):
    from scipy.linalg import expm
    t = m["temperature"]
    if m["kind"] == "commuting":
        lam = reorganisation_energy(corr, m)
        e = np.array(m["energies"]) - lam * np.array(m["coupling"]) ** 2
        w = np.exp(-(e - e.min()) / t)
        # 1e-5, not tighter: the library's Matsubara integrand is evaluated
        # by adaptive quadrature down to omega -> 0, where its numerator is a
        # difference of O(1) terms; the resulting noise limits eta(beta) to
        # ~1e-6 absolute whatever epsrel is requested (observed: 1.7e-7 in
        # the state once in ~3e5 models, otherwise <= 2.4e-10)
        return np.diag(w / w.sum()).astype(complex), 1e-5
    if m["kind"] == "covariance":
        # reference = the library's own result for the real Hamiltonian,
        # rotated (a metamorphic oracle: exact covariance at any coupling)
        base, _ = build(dict(m, rotated=False))
        base.compute(progress_type="silent")
        rho0 = np.array(base.get_state())
        u = np.diag(np.exp(1j * np.array(m["phases"])))
        return u @ rho0 @ u.conj().T, 1e-7
    h = hamiltonian(m)
    rho = expm(-h / t)
    rho = rho / np.trace(rho)
    if m["kind"] == "zero":
        return rho, 1e-7
    lam = reorganisation_energy(corr, m)
    o2 = max(abs(x) for x in m["coupling"]) ** 2
    return rho, 1e-7 + 4.0 * lam * max(o2, 1e-3) / t


def run_case(case, dec):
    log = EventLog()
    m = case["model"]
    violations = []
    stats = {"computes": 0, "get_state": 0, "get_dynamics": 0,
             "second_compute": 0}

    def viol(cls, detail, **fields):
        violations.append({
            "class": cls, "signature": "%s/d%d/%s" % (
                m["kind"], m["d"], "complex" if m.get("complex") else "real"),
            "detail": detail, "fields": dict(fields, kind=m["kind"])})

    log.ev("model", m["kind"], m["d"], m["n_steps"], m["cutoff_type"],
           int(bool(m.get("complex"))), m["hseed"])
    for variant in case.get("prelude") or []:
        pm = dict(m, **variant)
        if pm["kind"] == "zero" and not pm["alpha"]:
            pm["alpha"] = 0.0
        try:
            other, _ = build(pm)
            other.compute(progress_type="silent")
            other.get_state()
            stats["prelude_computations"] = stats.get(
                "prelude_computations", 0) + 1
        except Exception:  # noqa: BLE001 - the prelude is only a disturbance
            pass
    obj, corr = build(m)
    want, tol = exact_state(m, corr)
    computed = False
    max_err = [0.0]
    first_state = None
    ntimes = None
    for op in case["ops"]:
        if violations:
            break
        try:
            if op[0] == "compute":
                obj.compute(progress_type="silent")
                stats["computes"] += 1
                if computed:
                    stats["second_compute"] += 1
                computed = True
                log.ev("compute")
                continue
            if not computed:
                continue
            if op[0] == "get_dynamics":
                d = obj.get_dynamics()
                stats["get_dynamics"] += 1
                if ntimes is None:
                    ntimes = len(d.times)
                    if ntimes != m["n_steps"] + 1:
                        viol("dynamics_length",
                             "get_dynamics() has %d imaginary-time points for "
                             "n_steps=%d" % (ntimes, m["n_steps"]))
                elif len(d.times) != ntimes:
                    viol("repeat_changes_result",
                         "get_dynamics() grew from %d to %d points after "
                         "repeated compute()" % (ntimes, len(d.times)))
                log.ev("get_dynamics")
                continue
            rho = np.array(obj.get_state())
            stats["get_state"] += 1
            log.ev("get_state")
        except Exception as e:  # noqa: BLE001
            viol("repeat_raises", "%s raised %s: %s" % (
                op[0], type(e).__name__, str(e)[:120]))
            break
        if first_state is None:
            first_state = rho
        elif float(np.max(np.abs(rho - first_state))) > 1e-9:
            viol("repeat_changes_result",
                 "get_state() changed by %.3g after repeated calls" % float(
                     np.max(np.abs(rho - first_state))))
            break
        err = float(np.max(np.abs(rho - want)))
        max_err[0] = max(max_err[0], err)
        if not err <= tol:
            terr = float(np.max(np.abs(rho.T - want)))
            viol("state_differs_from_exact",
                 "Gibbs state differs from the %s reference by %.3g "
                 "(tolerance %.2g); its transpose differs by %.3g" % (
                     {"commuting": "independent-boson",
                      "covariance": "rotated real-Hamiltonian"}.get(
                          m["kind"], "exp(-H/T)/Z"), err, tol, terr),
                 transposed=str(terr <= tol))
            break
        if abs(np.trace(rho) - 1.0) > 1e-9:
            viol("not_normalised", "trace = %r" % complex(np.trace(rho)))
        if float(np.max(np.abs(rho - rho.conj().T))) > max(tol, 1e-9):
            viol("not_hermitian", "max |rho - rho^dagger| = %.3g" % float(
                np.max(np.abs(rho - rho.conj().T))))
        ev = np.linalg.eigvalsh((rho + rho.conj().T) / 2)
        if ev.min() < -max(tol, 1e-9):
            viol("not_positive", "smallest eigenvalue %.3g" % ev.min())
    return {
        "violations": violations[:2], "notes": [], "digest": log.digest(),
        "max_err": max_err[0],
        "events": len(log), "sim_ms": 0, "outcomes": [m["kind"]],
        "probes": dict(stats), "faults_fired": {},
        "nontrivial": stats["get_state"] >= 1 and stats["computes"] >= 2,
        "key": "%s/d%d/n%d" % (m["kind"], m["d"], m["n_steps"]),
        "stats": stats,
    }


RULE = ("each run = one seeded model (commuting H and diagonal coupling with "
        "closed-form reduced state; zero coupling or vanishing coupling with "
        "arbitrary real/complex Hermitian H and exp(-H/T)/Z) and one seeded "
        "history of compute()/get_state()/get_dynamics() calls; every "
        "get_state() is compared with the closed form and with the first "
        "state returned; non-trivial = at least two compute() calls and one "
        "get_state(); distinct = distinct event-log digests x model classes")
COMPONENTS = {"real": ["oqupy.GibbsTempo, TIBaseBackend, bath correlations",
                       "numpy/scipy"],
              "stub": ["none (call history is the only thing simulated)"]}
ASSUMPTIONS = [
    "the input quantifier of C11 is only sampled as workload; the history "
    "quantifier is what this check explores",
    "tolerance 1e-5 for the commuting closed form (cancellation noise of the "
    "library's Matsubara quadrature near omega -> 0 reaches 1.7e-7 once in "
    "~3e5 models; typical error <= 2.4e-10), 1e-7 for zero coupling and "
    "phase covariance; weak-coupling runs add 4*lambda*max(o^2)/T "
    "(observed deviation / bound <= 0.25)",
    "covariance runs use a metamorphic oracle: H -> U H U^dagger with a "
    "diagonal phase matrix U must give U rho U^dagger at any coupling",
]


def summarize(results):
    kinds = {}
    tot = {}
    for r in results:
        k = r.get("case", {}).get("model", {}).get("kind")
        kinds[k] = kinds.get(k, 0) + 1
        for a, b in (r.get("stats") or {}).items():
            tot[a] = tot.get(a, 0) + b
    return {"model_kinds": kinds, "operations": tot}
