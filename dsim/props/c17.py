"""C17 - an interrupted process-tensor file is never mistaken for a complete one.

Engine: simdisk.  For each seeded workload the complete write log of the real
HDF5 library is recorded, then *every* crash point (log prefix) is enumerated,
plus torn variants of multi-page writes; each durable image is opened with the
real import_process_tensor.  The mode matrix and remove() entitlement are
enumerated completely once per check (static_checks).
"""
import warnings

import numpy as np

from .. import simdisk, models
from ..core import EventLog

ID = "C17"
LEVEL = "fault_enumeration"
ENGINE = "simdisk"

TIERS = {"quick": {"runs": 480, "budget": 60.0, "cap": 120.0},
         "thorough": {"runs": 100000, "budget": 900.0, "cap": 300.0}}


def _pick(rng, seq, weights=None):
    if weights is None:
        return seq[rng.randrange(len(seq))]
    return rng.choices(seq, weights=weights, k=1)[0]


def gen_case(rng, tier="quick"):
    if rng.random() < 0.15:
        # the file object driven directly, in an arbitrary order of calls
        n = rng.randrange(1, 7)
        ops = []
        for _ in range(rng.randrange(2, 14)):
            # (compute_caps() is exercised by the file-backed PT-TEMPO
            # workloads; on arbitrary hand-made tensors it can fail half way
            # and leave a never-written slot, a state nobody defines)
            k = _pick(rng, ["mpo", "cap", "name", "description"],
                      [6, 3, 1, 1])
            ops.append([k, rng.randrange(n + 1), rng.randrange(1 << 20)])
        case = {"kind": "fdirect", "n": n, "d": 2,
                "chi": rng.randrange(1, 5), "dt": _pick(rng, [None, 0.1]),
                "ops": ops, "anon": rng.random() < 0.3,
                "overwrite": rng.random() < 0.3, "preexisting": False,
                "torn_per_write": 1}
        return case
    if rng.random() < 0.65:
        big = rng.random() < (0.08 if tier == "quick" else 0.15)
        case = {
            "kind": "export",
            "n": rng.randrange(1, 9) if rng.random() < 0.7
            else rng.randrange(9, 41),
            "d": _pick(rng, [2, 2, 3]),
            "chi": rng.randrange(24, 41) if big else rng.randrange(1, 9),
            "_big": big,
            "rank": _pick(rng, [3, 4]),
            "dt": _pick(rng, [None, 0.1, 0.05]),
            "transforms": rng.random() < 0.4,
            "caps": rng.random() < 0.85,
            "named": rng.random() < 0.7,
            "tseed": rng.randrange(1 << 30),
            "overwrite": rng.random() < 0.3,
            "preexisting": rng.random() < 0.3,
        }
        if case["rank"] == 3:
            case["transforms"] = False
        if case.pop("_big") and case["n"] > 8:
            case["chi"] = rng.randrange(1, 9)   # long OR fat, not both
    else:
        case = {
            "kind": "pt_tempo_file",
            "coupling": _pick(rng, ["z", "x", "y"]),
            "steps": rng.randrange(3, 9) if rng.random() < 0.75
            else rng.randrange(9, 26),
            "dkmax": _pick(rng, [None, 2, 3]),
            "anon": rng.random() < 0.3,
            "overwrite": rng.random() < 0.3,
            "preexisting": rng.random() < 0.2,
            "alpha": _pick(rng, [0.05, 0.2, 0.5]),
            "temperature": _pick(rng, [0.0, 1.0]),
            "epsrel": _pick(rng, [1e-4, 1e-7]),
        }
        if case["anon"]:
            case["preexisting"] = False
        if case["steps"] > 8:
            # long runs are about the number of write operations, not about
            # bond dimensions: keep them cheap
            case["epsrel"] = 1e-4
            case["dkmax"] = _pick(rng, [2, 3])
    case["torn_per_write"] = _pick(rng, [1, 2, 4])
    # the writer may have been another release of the library: the reader
    # then warns about the version, which is not the warning C17 asks for
    case["other_version"] = rng.random() < 0.15
    return case


def shrink(case):
    out = []
    for key, lo in (("n", 1), ("chi", 1), ("steps", 3)):
        if key in case and case[key] > lo:
            c = dict(case); c[key] = max(lo, case[key] // 2); out.append(c)
            c = dict(case); c[key] = case[key] - 1; out.append(c)
    for key in ("transforms", "preexisting", "overwrite", "caps",
                "other_version"):
        if case.get(key):
            c = dict(case); c[key] = False; out.append(c)
    return out


def prepare_worker():
    import oqupy  # noqa: F401
    import h5py  # noqa: F401
    warnings.simplefilter("ignore")


# ---------------------------------------------------------------------------

def build_simple_pt(case):
    """Hand-built SimpleProcessTensor from plain data."""
    import oqupy
    rng = np.random.default_rng(case["tseed"])
    d, n, chi = case["d"], case["n"], case["chi"]
    kw = {}
    if case["transforms"]:
        u = np.linalg.qr(rng.normal(size=(d * d, d * d))
                         + 1j * rng.normal(size=(d * d, d * d)))[0]
        if case["transforms"] == "near_identity":
            from scipy.linalg import expm
            x = rng.normal(size=(d * d, d * d))
            u = expm(1e-7j * (x + x.T))
        if case["transforms"] != "out_only":
            kw["transform_in"] = u
        if case["transforms"] != "in_only":
            kw["transform_out"] = u.conj().T
    if case.get("named"):
        style = case["tseed"] % 6
        kw["name"] = ["pt-%d" % (case["tseed"] % 1000),
                      "\u03c0-tensor \u00e9\u00e8 #%d" % (case["tseed"] % 7),
                      "", "x" * 300, "  padded name \t",
                      "long/" * 200][style]
        kw["description"] = ["hand built, chi=%d" % chi,
                             "line one\nline two\ttab", "",
                             "\u2202\u03c1/\u2202t",
                             "\n  a block of text\n  in two lines\n",
                             "a parameter dump, 5000 characters: "
                             + "0123456789" * 500][style]
    pt = oqupy.process_tensor.SimpleProcessTensor(
        hilbert_space_dimension=d, dt=case["dt"], **kw)
    for k in range(n):
        left = 1 if k == 0 else chi
        right = 1 if k == n - 1 else chi
        shape = (left, right, d * d) if case["rank"] == 3 else (
            left, right, d * d, d * d)
        t = (rng.normal(size=shape) + 1j * rng.normal(size=shape)) / chi
        if n > 12:
            # long chains of plain random tensors over- or underflow when
            # they are contracted (and comparing infinities says nothing):
            # identity-like tensors with a random perturbation instead
            base = np.zeros(shape, dtype=complex)
            for a in range(min(left, right)):
                if case["rank"] == 3:
                    base[a, a, :] = 1.0
                else:
                    base[a, a] = np.identity(d * d)
            t = base + 0.05 * t
        lay = case.get("layout", "c")
        if lay == "f":
            t = np.asfortranarray(t)
        elif lay == "view":
            # a transposed view of a differently ordered buffer
            t = np.ascontiguousarray(np.moveaxis(t, 0, -1))
            t = np.moveaxis(t, -1, 0)
        pt.set_mpo_tensor(k, t)
    if case.get("caps", True) == "custom":
        # caps set by hand, including a closing cap that is not [1.0]
        for k in range(n + 1):
            size = 1 if (k == 0 or k == n) else chi
            pt.set_cap_tensor(k, rng.normal(size=size)
                              + 1j * rng.normal(size=size))
    elif case.get("caps", True):
        pt.compute_caps()
    return pt


def _maybe(x):
    return None if x is None else np.array(x)


RAISES = "<<raises>>"


def _try(fn):
    """Value of fn(), or RAISES (reading a never-written slot of a file
    process tensor raises; then there is nothing to compare)."""
    try:
        return _maybe(fn())
    except Exception:  # noqa: BLE001
        return RAISES


def snapshot(pt):
    """Everything observable of a process tensor, as plain numpy data."""
    n = len(pt)
    snap = {
        "len": n, "dt": pt.dt, "hs_dim": pt.hilbert_space_dimension,
        "name": pt.name, "description": pt.description,
        "transform_in": None if pt.transform_in is None
        else np.array(pt.transform_in),
        "transform_out": None if pt.transform_out is None
        else np.array(pt.transform_out),
        "mpo": [_try(lambda k=k: pt.get_mpo_tensor(k, transformed=False))
                for k in range(n)],
        "caps": [],
    }
    for k in range(n + 1):
        snap["caps"].append(_try(lambda k=k: pt.get_cap_tensor(k)))
    snap["initial"] = _try(pt.get_initial_tensor)
    return snap


def _canon(t):
    """Rank-3 MPO tensors carry an implicit delta between the system legs;
    FileProcessTensor hands them out raw, SimpleProcessTensor expanded."""
    import oqupy.util as U
    t = np.asarray(t)
    if t.ndim == 3:
        t = U.create_delta(t, [0, 1, 2, 2])
    return t


def _same_mpo(a, b):
    if a is None or b is None:
        return a is None and b is None
    return _same(_canon(a), _canon(b))


def _same(a, b):
    if a is None or b is None:
        return a is None and b is None
    a = np.asarray(a)
    b = np.asarray(b)
    return a.shape == b.shape and a.dtype == b.dtype and \
        a.tobytes() == b.tobytes()


def observe(q, ref, consumer=None):
    """Compare every observation of q with the reference snapshot.

    Returns a list of differences ('what: got vs want').  An observation that
    raises is a *late failure*, which the property allows: not a difference.
    """
    diffs = []

    def obs(label, fn, want, cmp=None):
        try:
            got = fn()
        except Exception:  # noqa: BLE001 - failing loudly is allowed
            return
        ok = cmp(got, want) if cmp else got == want
        if not ok:
            diffs.append(label)

    obs("len", lambda: len(q), ref["len"])
    obs("dt", lambda: q.dt, ref["dt"])
    obs("hs_dim", lambda: q.hilbert_space_dimension, ref["hs_dim"])
    obs("name", lambda: q.name, ref["name"])
    obs("description", lambda: q.description, ref["description"])
    obs("transform_in", lambda: q.transform_in, ref["transform_in"], _same)
    obs("transform_out", lambda: q.transform_out, ref["transform_out"], _same)
    for k in range(ref["len"]):
        if ref["mpo"][k] is not RAISES:
            obs("mpo[%d]" % k,
                lambda k=k: q.get_mpo_tensor(k, transformed=False),
                ref["mpo"][k], _same_mpo)
    for k in range(ref["len"] + 1):
        if ref["caps"][k] is not RAISES:
            obs("cap[%d]" % k, lambda k=k: q.get_cap_tensor(k),
                ref["caps"][k], _same)
    if ref["mpo"] and all(t is not None and t is not RAISES
                          for t in ref["mpo"]):
        want_bd = [t.shape[0] for t in ref["mpo"]] + [
            ref["mpo"][-1].shape[1]]
        obs("bond_dimensions", lambda: list(q.get_bond_dimensions()),
            want_bd, lambda g, w: [int(x) for x in g] == [int(x) for x in w])
    if consumer is not None:
        obs("consumer", lambda: consumer(q), consumer.reference,
            lambda g, w: np.shape(g) == np.shape(w)
            and np.allclose(g, w, rtol=0, atol=1e-12))
    return diffs


class Consumer:
    """compute_dynamics with the process tensor; reference computed once."""

    def __init__(self, ref_pt, d, dt):
        import oqupy
        self.d = d
        rng = np.random.default_rng(5)
        h = rng.normal(size=(d, d))
        self.system = oqupy.System(h + h.T)
        rho = np.zeros((d, d), dtype=complex)
        rho[0, 0] = 1.0
        self.rho = rho
        self.dt = dt
        self.reference = None
        try:
            self.reference = self(ref_pt)
        except Exception:  # noqa: BLE001 - e.g. tensor without caps
            self.reference = None

    def __call__(self, pt):
        import oqupy
        kw = {}
        if pt.dt is None:
            kw["dt"] = 0.1
        dyn = oqupy.compute_dynamics(self.system, self.rho, process_tensor=pt,
                                     progress_type="silent", **kw)
        return np.array(dyn.states)


def run_workload(case, disk):
    """Execute the writer once on the simulated disk; return target name and
    the reference snapshot of what a complete file must contain."""
    import oqupy
    import oqupy.process_tensor as ptm
    name = "target.hdf5"
    if case.get("preexisting"):
        old = build_simple_pt({"d": 2, "n": 2, "chi": 2, "rank": 4,
                               "dt": 0.2, "transforms": False, "tseed": 1,
                               "named": False})
        old.export(name)
        disk.sync_closed()
    orig_set = ptm._set_data_and_shape

    def marking_set(step, data, shape, tensor):
        r = orig_set(step, data, shape, tensor)
        disk.mark("after_set")
        return r
    ptm._set_data_and_shape = marking_set
    real_version = ptm.__version__
    if case.get("other_version"):
        ptm.__version__ = "0.0.1.other-release"
    try:
        if case["kind"] == "fdirect":
            rngs = np.random.default_rng(7)
            fpt = ptm.FileProcessTensor(
                mode="overwrite" if case["overwrite"] else "write",
                filename=None if case["anon"] else name,
                hilbert_space_dimension=case["d"], dt=case["dt"])
            name = fpt.filename
            disk.mark("created")
            d, chi = case["d"], case["chi"]
            have = 0
            caps_have = 0
            for k, idx, seed in case["ops"]:
                r = np.random.default_rng(seed)
                if k == "mpo":
                    step = min(idx, have)       # contiguous: append or redo
                    t = r.normal(size=(chi, chi, d * d, d * d)) + 0j
                    fpt.set_mpo_tensor(step, t)
                    have = max(have, step + 1)
                elif k == "cap":
                    # contiguous as well: a never-written slot below a
                    # written one is not a state the library defines
                    cstep = min(idx, caps_have)
                    fpt.set_cap_tensor(cstep, r.normal(size=chi) + 0j)
                    caps_have = max(caps_have, cstep + 1)
                elif k == "name":
                    fpt.name = "n%d" % seed
                elif k == "description":
                    fpt.description = "d%d" % seed
                elif k == "compute_caps" and have > 0:
                    try:
                        fpt.compute_caps()
                        caps_have = max(caps_have, have + 1)
                    except Exception:  # noqa: BLE001 - not every hand-made
                        pass           # tensor sequence can be capped
            if have == 0:
                fpt.set_mpo_tensor(0, np.ones((chi, chi, d * d, d * d)) + 0j)
            disk.mark("before_close")
            ref = snapshot(fpt)
            ref_pt = None
            fpt.close()
            del rngs
        elif case["kind"] == "export":
            pt = build_simple_pt(case)
            overwrite = case["overwrite"] or case.get("preexisting", False)
            pt.export(name, overwrite=overwrite)
            ref = snapshot(pt)
            ref_pt = pt
        else:
            bath = models.make_bath(case["coupling"], alpha=case["alpha"],
                                    temperature=case["temperature"])
            pars = oqupy.TempoParameters(dt=0.1, epsrel=case["epsrel"],
                                         dkmax=case["dkmax"])
            target = True if case["anon"] else name
            overwrite = case["overwrite"] or case.get("preexisting", False)
            ptt = oqupy.PtTempo(bath, 0.0, (case["steps"] + 0.5) * 0.1, pars,
                                process_tensor_file=target,
                                overwrite=overwrite, name="ptt",
                                description="file backed")
            disk.mark("created")
            ptt.compute(progress_type="silent")
            disk.mark("computed")
            fpt = ptt.get_process_tensor()
            name = fpt.filename
            disk.mark("before_close")
            ref = snapshot(fpt)
            ref_pt = None
            fpt.close()
    finally:
        ptm._set_data_and_shape = orig_set
        ptm.__version__ = real_version
    disk.sync_closed()
    return name, ref, ref_pt


def open_image(image, name, ptype):
    """Open a durable image with the real reader.  Returns (q, warned, exc)."""
    disk2 = simdisk.SimDisk()
    disk2.files[name] = image
    simdisk.install(disk2)
    import oqupy.process_tensor as ptm
    with warnings.catch_warnings(record=True) as w:
        warnings.simplefilter("always")
        try:
            q = ptm.import_process_tensor(name, ptype)
        except Exception as e:  # noqa: BLE001 - failing to open is allowed
            return None, False, type(e).__name__
        warned = any("corrupt" in str(x.message).lower() for x in w)
    return q, warned, None


def examine(image, name, ptype, ref, consumer, limit_s=12.0):
    """Open ``image`` as ``ptype`` and compare every observation with ``ref``.

    Returns (status, info): "fail" (cannot be opened; info = exception name),
    "warned", "complete", "wrong" (info = list of differing observations) or
    "hang" (the reader did not come back within limit_s).  Whether the file
    can be opened at all is decided in-process (cheap, and true for ~90 % of
    the crash images); anything that reads tensor data from an openable image
    runs in a forked child with a time limit, because a torn image can make
    the HDF5 library spin for minutes.  A hang is a failure to read, not a
    silent success.
    """
    import json
    import os
    import select
    import signal
    q, warned, exc = open_image(image, name, "file")   # header only
    if q is None:
        return "fail", exc
    _close(q)
    if warned and ptype == "file":
        return "warned", None
    r, w = os.pipe()
    pid = os.fork()
    if pid == 0:
        out = ("fail", "child")
        try:
            os.close(r)
            q2, warned2, exc2 = open_image(image, name, ptype)
            if q2 is None:
                out = ("fail", exc2)
            elif warned2:
                out = ("warned", None)
            else:
                diffs = observe(q2, ref, consumer)
                out = ("wrong", diffs[:12]) if diffs else ("complete", None)
        except BaseException as e:  # noqa: BLE001
            out = ("fail", type(e).__name__)
        finally:
            try:
                os.write(w, json.dumps(out).encode())
            finally:
                os._exit(0)
    os.close(w)
    data = b""
    rl, _, _ = select.select([r], [], [], limit_s)
    if rl:
        while True:
            b = os.read(r, 65536)
            if not b:
                break
            data += b
    else:
        try:
            os.kill(pid, signal.SIGKILL)
        except ProcessLookupError:
            pass
    os.close(r)
    os.waitpid(pid, 0)
    if not data:
        return "hang", None
    status, info = json.loads(data)
    return status, info


def run_case(case, dec):
    log = EventLog()
    disk = simdisk.SimDisk()
    simdisk.install(disk)
    name, ref, ref_pt = run_workload(case, disk)
    initial, wlog = disk.logs[name][-1]
    nops = len(wlog)
    writes = [i for i, e in enumerate(wlog) if e[0] == "w"]
    log.ev("workload", case["kind"], nops, len(writes), len(disk.files[name]))
    marks = sorted({pos for (nm, _, pos) in disk.marks if nm == name})

    # consumer reference (only where a complete tensor has caps)
    consumer = None
    try:
        final_q, _, _ = open_image(disk.files[name], name, "simple")
        if final_q is not None and ref["caps"][0] is not None \
                and ref["caps"][0] is not RAISES \
                and all(c is not RAISES for c in ref["caps"]) \
                and all(t is not RAISES for t in ref["mpo"]):
            consumer = Consumer(final_q, ref["hs_dim"], ref["dt"])
            if consumer.reference is None:
                consumer = None
    except Exception:  # noqa: BLE001
        consumer = None

    # crash points: every prefix; torn variants of multi-page writes.  If the
    # writer produced the file under another name and renamed it, the target
    # name only exists from the rename on (earlier: nothing to open)
    first_visible = 0
    for src, dst, pos in disk.renames:
        if dst == name:
            first_visible = nops if pos is None else pos
    points = [(p, None) for p in range(first_visible, nops + 1)]
    ntorn = 0
    for p in writes:
        if p < first_visible:
            continue
        size = len(wlog[p][2])
        pages = (size - 1) // simdisk.PAGE
        if pages >= 1:
            for _ in range(min(case.get("torn_per_write", 1), pages)):
                j = 1 + dec.choose("torn-page", pages)
                points.append((p, j * simdisk.PAGE))
                ntorn += 1
    # a pre-existing complete file that is still byte-identical after the
    # writer died is the *old* file, not an incomplete new one
    old_image = None
    if case.get("preexisting") and len(disk.logs.get(name, [])) >= 2:
        oi, ol = disk.logs[name][0]
        old_image = simdisk.image_from(oi, ol, len(ol))
    violations = []
    stats = {"images": 0, "open_failed": 0, "warned": 0, "silent_complete": 0,
             "silent_then_raised": 0, "torn_images": ntorn,
             "api_marks": len(marks)}
    first_openable = None
    for p, torn in points:
        if stats.get("reader_hangs", 0) >= 2:
            break     # every further torn image would cost another time-out
        image = simdisk.image_from(initial, wlog, p, torn)
        is_final = (p == nops and torn is None)
        if old_image is not None and image == old_image and not is_final:
            stats["old_file_intact"] = stats.get("old_file_intact", 0) + 1
            continue
        for ptype in ("file", "simple"):
            stats["images"] += 1
            status, info = examine(image, name, ptype, ref, consumer)
            if status in ("fail", "hang"):
                stats["open_failed"] += 1
                if status == "hang":
                    stats["reader_hangs"] = stats.get("reader_hangs", 0) + 1
                log.ev("img", p, torn or 0, ptype, status, str(info))
                if is_final:
                    violations.append({
                        "class": "closed_file_unreadable",
                        "signature": "%s/%s" % (case["kind"], ptype),
                        "detail": "file closed normally cannot be opened: "
                                  + str(info)})
                continue
            if first_openable is None:
                first_openable = p
            if status == "warned":
                stats["warned"] += 1
                log.ev("img", p, torn or 0, ptype, "warned")
                if is_final:
                    violations.append({
                        "class": "closed_file_warns",
                        "signature": "%s/%s" % (case["kind"], ptype),
                        "detail": "file closed normally opens with the "
                                  "corruption warning"})
                continue
            if status == "wrong":
                diffs = info
                log.ev("img", p, torn or 0, ptype, "silent-wrong",
                       ",".join(diffs[:6]))
                cls = "closed_file_incomplete" if is_final else \
                    "silent_incomplete_after_crash"
                violations.append({
                    "class": cls,
                    "signature": "%s/%s/%s" % (case["kind"], ptype,
                                               diffs[0].split("[")[0]),
                    "detail": "crash after %d of %d file operations%s: image "
                              "opens without warning but %s differ(s) from "
                              "what was written" % (
                                  p, nops,
                                  " (+%d torn bytes)" % torn if torn else "",
                                  ", ".join(diffs[:8]))})
            else:
                stats["silent_complete"] += 1
                log.ev("img", p, torn or 0, ptype, "complete")
        if len(violations) >= 3:
            break
    # -- the other way a writer dies: an uncaught exception or sys.exit at
    # an API-level point.  No application cleanup runs, but the interpreter
    # shuts down in an orderly way and h5py closes (flushes) the open file.
    nmarks = disk.mark_count
    stats["soft_deaths"] = 0
    if nmarks and len(violations) < 3:
        if case["kind"] == "pt_tempo_file":
            ks = sorted({1 + dec.choose("soft-death-mark", nmarks)
                         for _ in range(3)})
        elif nmarks <= 24:
            ks = list(range(1, nmarks + 1))
        else:
            ks = sorted({1 + dec.choose("soft-death-mark", nmarks)
                         for _ in range(24)})
        for k in ks:
            disk3 = simdisk.SimDisk()
            simdisk.install(disk3)
            disk3.die_at = k
            try:
                run_workload(case, disk3)
                died = False
            except simdisk.SoftDeath:
                died = True
            import gc
            gc.collect()      # finalisers of the writer's objects run first
            disk3.interpreter_shutdown()
            if not died or name not in disk3.files:
                continue
            stats["soft_deaths"] += 1
            image = disk3.files[name]
            if case.get("preexisting") and len(disk3.logs.get(name, [])) == 1 \
                    and old_image is not None and image == old_image:
                stats["old_file_intact"] = stats.get("old_file_intact", 0) + 1
                continue
            for ptype in ("file", "simple"):
                stats["images"] += 1
                status, info = examine(image, name, ptype, ref, consumer)
                if status in ("fail", "hang"):
                    stats["open_failed"] += 1
                    log.ev("soft", k, ptype, status, str(info))
                    continue
                if status == "warned":
                    stats["warned"] += 1
                    log.ev("soft", k, ptype, "warned")
                    continue
                if status == "wrong":
                    diffs = info
                    log.ev("soft", k, ptype, "silent-wrong")
                    violations.append({
                        "class": "silent_incomplete_after_writer_exit",
                        "signature": "%s/%s/%s" % (
                            case["kind"], ptype, diffs[0].split("[")[0]),
                        "detail": "writer ended by an uncaught exception at "
                                  "API-level point %d of %d (interpreter "
                                  "shut down, file never closed by the "
                                  "application): the file opens without "
                                  "warning but %s differ(s) from a complete "
                                  "file" % (k, nmarks, ", ".join(diffs[:8]))})
                    break
                stats["silent_complete"] += 1
                log.ev("soft", k, ptype, "complete")
            if len(violations) >= 3:
                break
    stats["first_openable_prefix"] = -1 if first_openable is None \
        else first_openable
    stats["ops"] = nops
    # de-duplicate by class
    seen = set()
    uniq = []
    for v in violations:
        if v["class"] not in seen:
            seen.add(v["class"])
            uniq.append(v)
    return {
        "violations": uniq, "notes": [], "digest": log.digest(),
        "events": len(log), "sim_ms": 0, "outcomes": ["enumerated"],
        "probes": {
            "crash_images_opened": stats["images"],
            "image_failed_to_open": stats["open_failed"],
            "image_warned": stats["warned"],
            "image_silent_and_complete": stats["silent_complete"],
            "torn_images": ntorn, "api_level_marks": len(marks),
            "writer_exits_enumerated": stats["soft_deaths"]},
        "faults_fired": {"crash_point": nops + 1, "torn_write": ntorn,
                         "writer_exit_without_close": stats["soft_deaths"]},
        "nontrivial": nops > 10,
        "key": "%s/ops%d" % (case["kind"], nops),
        "stats": stats,
    }


def _close(q):
    try:
        q.close()
    except Exception:  # noqa: BLE001
        pass


# ---------------------------------------------------------------------------
# mode matrix and remove() entitlement: enumerated completely

def static_checks(tier, seed):
    import oqupy  # noqa: F401
    import oqupy.process_tensor as ptm
    warnings.simplefilter("ignore")
    violations = []
    report = {"mode_matrix_cells": 0}

    def small(tseed):
        return build_simple_pt({"d": 2, "n": 3, "chi": 2, "rank": 4,
                                "dt": 0.1, "transforms": False,
                                "tseed": tseed, "named": True})

    def viol(cls, sig, detail):
        violations.append({"class": cls, "signature": sig, "detail": detail})

    for mode in ("write", "overwrite", "read"):
        for exists in (True, False):
            for named in (True, False):
                if mode == "read" and not named:
                    continue
                report["mode_matrix_cells"] += 1
                disk = simdisk.SimDisk()
                simdisk.install(disk)
                name = "f.hdf5" if named else None
                if exists and named:
                    small(1).export("f.hdf5")
                    disk.sync_closed()
                    old = disk.files["f.hdf5"]
                elif exists and not named:
                    # an anonymous file can only collide by accident; covered
                    # by the temp-name generator never repeating a name
                    continue
                else:
                    old = None
                cell = "%s/%s/%s" % (mode, "exists" if exists else "missing",
                                     "named" if named else "anonymous")
                try:
                    fpt = ptm.FileProcessTensor(
                        mode=mode, filename=name, hilbert_space_dimension=2,
                        dt=0.1)
                    err = None
                except Exception as e:  # noqa: BLE001
                    fpt = None
                    err = e
                disk.sync_closed()
                if mode == "write" and exists:
                    if err is None:
                        viol("write_mode_overwrote_existing", cell,
                             "mode='write' on an existing file did not raise")
                    if disk.files.get("f.hdf5") != old:
                        viol("write_mode_overwrote_existing", cell,
                             "existing file changed by mode='write'")
                elif mode == "read" and not exists:
                    if err is None:
                        viol("read_missing_did_not_fail", cell,
                             "reading a missing file did not raise")
                elif mode == "read" and exists:
                    if err is not None:
                        viol("read_existing_failed", cell, repr(err))
                else:
                    if err is not None:
                        viol("create_failed", cell, repr(err))
                if fpt is None:
                    continue
                fname = fpt.filename
                if mode != "read":
                    fpt.set_mpo_tensor(0, np.ones((1, 1, 4, 4), dtype=complex))
                # remove(): allowed only for anonymous files or overwrite mode
                entitled = (mode == "overwrite") or (mode == "write"
                                                     and not named)
                try:
                    fpt.remove()
                    rerr = None
                except Exception as e:  # noqa: BLE001
                    rerr = e
                disk.sync_closed()
                gone = not disk.exists(fname)
                if entitled:
                    if rerr is not None or not gone:
                        viol("entitled_remove_failed", cell,
                             "remove() of an owned file failed: %r" % (rerr,))
                else:
                    if rerr is None or gone:
                        viol("remove_not_refused", cell,
                             "remove() deleted (or did not refuse) a file the "
                             "object is not entitled to delete")
                    if mode == "read" and exists and \
                            disk.files.get("f.hdf5") != old:
                        viol("remove_not_refused", cell,
                             "file changed by refused remove()")
    # mode 'write' against existing files of every kind: a valid file was
    # covered above; also something that is not (or not yet) a readable HDF5
    # file must never be replaced or removed
    leftover_disk = simdisk.SimDisk()
    simdisk.install(leftover_disk)
    small(7).export("l.hdf5")
    leftover_disk.sync_closed()
    l_init, l_log = leftover_disk.logs["l.hdf5"][-1]
    existing = {
        "garbage": b"this is not an hdf5 file\n" * 40,
        "empty": b"",
        "crash_leftover": simdisk.image_from(l_init, l_log, len(l_log) // 2),
    }
    for kind, content in sorted(existing.items()):
        for front in ("FileProcessTensor", "export", "PtTempo"):
            report["mode_matrix_cells"] += 1
            disk = simdisk.SimDisk()
            simdisk.install(disk)
            disk.files["f.hdf5"] = content
            cell = "write/exists:%s/%s" % (kind, front)
            try:
                if front == "FileProcessTensor":
                    obj = ptm.FileProcessTensor(
                        mode="write", filename="f.hdf5",
                        hilbert_space_dimension=2, dt=0.1)
                elif front == "export":
                    small(5).export("f.hdf5")
                else:
                    import oqupy as oq
                    oq.PtTempo(models.make_bath("z"), 0.0, 0.45,
                               oq.TempoParameters(dt=0.1, epsrel=1e-4,
                                                  dkmax=2),
                               process_tensor_file="f.hdf5")
                err = None
            except Exception as e:  # noqa: BLE001
                err = e
            disk.sync_closed()
            if err is None or disk.files.get("f.hdf5") != content or \
                    "f.hdf5" in disk.removed or "f.hdf5" in disk.open_files:
                viol("write_mode_overwrote_existing", cell,
                     "mode 'write' (%s) replaced or removed an existing %s "
                     "file (error: %r)" % (front, kind, err))
    # the same with the name given as pathlib.Path instead of str
    import pathlib
    for front in ("FileProcessTensor", "export", "PtTempo"):
        report["mode_matrix_cells"] += 1
        disk = simdisk.SimDisk()
        simdisk.install(disk)
        small(8).export("p.hdf5")
        disk.sync_closed()
        old = disk.files["p.hdf5"]
        cell = "write/exists/pathlib/%s" % front
        try:
            if front == "FileProcessTensor":
                ptm.FileProcessTensor(
                    mode="write", filename=pathlib.Path("p.hdf5"),
                    hilbert_space_dimension=2, dt=0.1)
            elif front == "export":
                small(9).export(pathlib.Path("p.hdf5"))
            else:
                import oqupy as oq
                ptt = oq.PtTempo(models.make_bath("z"), 0.0, 0.45,
                                 oq.TempoParameters(dt=0.1, epsrel=1e-4,
                                                    dkmax=2),
                                 process_tensor_file=pathlib.Path("p.hdf5"))
                try:
                    ptt.get_process_tensor(progress_type="silent").remove()
                except Exception:  # noqa: BLE001 - refusing is fine
                    pass
        except Exception:  # noqa: BLE001 - refusing is fine
            pass
        disk.sync_closed()
        if disk.files.get("p.hdf5") != old:
            viol("write_mode_overwrote_existing", cell,
                 "an existing file was replaced or removed although "
                 "overwriting was not requested (file name given as "
                 "pathlib.Path, front end %s)" % front)
    # ... and a file another writer currently holds open
    report["mode_matrix_cells"] += 1
    disk = simdisk.SimDisk()
    simdisk.install(disk)
    first = ptm.FileProcessTensor(mode="write", filename="f.hdf5",
                                  hilbert_space_dimension=2, dt=0.1)
    # (whatever name the first writer's open file goes by: an implementation
    # may well write to a side file and rename it when it closes)
    held = {k: v[0] for k, v in disk.open_files.items()}
    try:
        small(6).export("f.hdf5")
        err = None
    except Exception as e:  # noqa: BLE001
        err = e
    if err is None or any(k in disk.removed for k in held) or any(
            disk.open_files.get(k, (None,))[0] is not v
            for k, v in held.items()):
        viol("write_mode_overwrote_existing", "write/exists:open-by-writer",
             "mode 'write' replaced or unlinked a file another writer has "
             "open (error: %r)" % (err,))
    first.set_mpo_tensor(0, np.ones((1, 1, 4, 4), dtype=complex))
    first.close()
    disk.sync_closed()
    try:
        back = ptm.import_process_tensor("f.hdf5", "simple")
        if len(back) != 1:
            raise ValueError("length %d" % len(back))
    except Exception as e:  # noqa: BLE001
        viol("write_mode_overwrote_existing", "write/exists:open-by-writer",
             "the first writer's file is not what it wrote after a second "
             "mode-'write' attempt on the same name: %r" % (e,))
    # a user's named file that happens to live in the temporary directory is
    # still the user's: remove() must refuse
    report["mode_matrix_cells"] += 1
    disk = simdisk.SimDisk()
    simdisk.install(disk)
    user = "/simtmp/pt_userfile.hdf5"
    fpt = ptm.FileProcessTensor(mode="write", filename=user,
                                hilbert_space_dimension=2, dt=0.1)
    fpt.set_mpo_tensor(0, np.ones((1, 1, 4, 4), dtype=complex))
    try:
        fpt.remove()
        rerr = None
    except Exception as e:  # noqa: BLE001
        rerr = e
    disk.sync_closed()
    if rerr is None or not disk.exists(user):
        viol("remove_not_refused", "write/named-in-tempdir",
             "remove() deleted a named file because it lies in the "
             "temporary directory")
    # two anonymous process tensors never share a file
    report["mode_matrix_cells"] += 1
    disk = simdisk.SimDisk()
    simdisk.install(disk)
    a1 = ptm.FileProcessTensor(mode="write", hilbert_space_dimension=2)
    a1.set_mpo_tensor(0, np.ones((1, 1, 4, 4), dtype=complex))
    a2 = ptm.FileProcessTensor(mode="write", hilbert_space_dimension=2)
    a2.set_mpo_tensor(0, 2 * np.ones((1, 1, 4, 4), dtype=complex))
    n1, n2 = a1.filename, a2.filename
    a1.close()
    a2.close()
    disk.sync_closed()
    ok = n1 != n2
    if ok:
        try:
            t1 = ptm.import_process_tensor(n1, "simple").get_mpo_tensor(
                0, transformed=False)
            t2 = ptm.import_process_tensor(n2, "simple").get_mpo_tensor(
                0, transformed=False)
            ok = abs(t1[0, 0, 0, 0] - 1) < 1e-12 and \
                abs(t2[0, 0, 0, 0] - 2) < 1e-12
        except Exception:  # noqa: BLE001
            ok = False
    if not ok:
        viol("write_mode_overwrote_existing", "anonymous/anonymous",
             "two anonymous file process tensors ended up in the same file "
             "(%s, %s) or lost their content" % (n1, n2))
    # PtTempo front-end: overwrite flag honoured
    for overwrite in (False, True):
        report["mode_matrix_cells"] += 1
        disk = simdisk.SimDisk()
        simdisk.install(disk)
        small(2).export("run.hdf5")
        disk.sync_closed()
        old = disk.files["run.hdf5"]
        import oqupy as oq
        bath = models.make_bath("z")
        pars = oq.TempoParameters(dt=0.1, epsrel=1e-4, dkmax=2)
        try:
            ptt = oq.PtTempo(bath, 0.0, 0.45, pars,
                             process_tensor_file="run.hdf5",
                             overwrite=overwrite)
            err = None
        except Exception as e:  # noqa: BLE001
            err = e
        disk.sync_closed()
        cell = "PtTempo/overwrite=%s" % overwrite
        if not overwrite:
            if err is None or disk.files.get("run.hdf5") != old:
                viol("write_mode_overwrote_existing", cell,
                     "PtTempo without overwrite replaced an existing file")
        elif err is not None:
            viol("create_failed", cell, repr(err))
    # export(): same
    for overwrite in (False, True):
        report["mode_matrix_cells"] += 1
        disk = simdisk.SimDisk()
        simdisk.install(disk)
        small(3).export("e.hdf5")
        disk.sync_closed()
        old = disk.files["e.hdf5"]
        try:
            small(4).export("e.hdf5", overwrite=overwrite)
            err = None
        except Exception as e:  # noqa: BLE001
            err = e
        disk.sync_closed()
        cell = "export/overwrite=%s" % overwrite
        if not overwrite:
            if err is None or disk.files.get("e.hdf5") != old:
                viol("write_mode_overwrote_existing", cell,
                     "export without overwrite replaced an existing file")
        else:
            if err is not None or disk.files.get("e.hdf5") == old:
                viol("overwrite_did_not_replace", cell, repr(err))
    report["mode_matrix_exhaustive"] = True
    # real files, real HDF5 file driver, real SIGKILL (stub fidelity)
    import os
    from .. import fidelity
    here = os.path.dirname(os.path.dirname(os.path.dirname(
        os.path.abspath(__file__))))
    v2, rep2 = fidelity.real_kill_cases(
        os.environ.get("OQUPY_SRC", "/repo"), here,
        ncases=1 if tier == "quick" else 2)
    violations += v2
    report["real_sigkill_runs"] = rep2
    # real files that the OS stops from growing (full disk / quota): failing
    # writes at high offsets while low offsets still succeed
    v3, rep3 = fidelity.real_full_disk_cases(
        os.environ.get("OQUPY_SRC", "/repo"), here, tier=tier)
    violations += v3
    report["real_full_disk_runs"] = rep3
    return {"violations": violations, "report": report}


RULE = ("each evaluation = one seeded writer workload (export of a hand-built "
        "tensor or a file-backed PT-TEMPO run) executed on the simulated disk; "
        "ALL crash points (prefixes of the real HDF5 write log) of that "
        "workload are enumerated, plus torn variants of multi-page writes, "
        "each image opened as 'file' and as 'simple'; non-trivial = the "
        "workload issued more than 10 file operations; distinct = distinct "
        "event-log digests")

COMPONENTS = {
    "real": ["oqupy.process_tensor (writer and reader)", "h5py",
             "the HDF5 C library including its caches and flush order",
             "PT-TEMPO backend for file-backed runs"],
    "stub": ["HDF5 file driver -> Python file object on SimDisk (h5py "
             "'fileobj' driver)", "os.remove / tempfile names",
             "process death -> log prefix (page cache survives; power loss "
             "not modelled)"],
}

ASSUMPTIONS = [
    "a killed process loses HDF5's user-space caches but nothing it already "
    "handed to the OS (C17 speaks of process death, not power loss)",
    "only writes larger than one page are torn, at page multiples",
    "a late exception from a silently opened image is a failure, not silence",
]


def summarize(results):
    ops = 0
    first = {}
    for r in results:
        st = r.get("stats", {})
        ops += st.get("ops", 0) + 1
        k = "never" if st.get("first_openable_prefix", -1) < 0 else (
            "at_close" if st["first_openable_prefix"] >= st.get("ops", 0) - 45
            else "early")
        first[k] = first.get(k, 0) + 1
    return {"crash_points_enumerated": ops,
            "exhaustive_per_workload": True,
            "first_openable_image": first}
