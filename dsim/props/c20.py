"""C20 - results depend only on current inputs: no mutation, aliasing or
stale state.

Engine: opmachine.  Nothing here is nondeterministic; what makes C20 a
simulation target is that it quantifies over *histories of use* of shared,
memoising objects (and over failing callables that must not leak into the
next computation).  A run is an operation list on a pool of correlations,
baths, systems, process tensors and caller arrays in different memory
layouts; every result is compared with the same call replayed on fresh
objects built from the reference model's plain values, and every caller array
is compared bytewise before/after each library call.
"""
import warnings

import numpy as np

from .. import models
from ..core import EventLog, InjectedFault

# largest observed (deviation / tolerance) of a comparison that passed
MARGIN = [0.0]

ID = "C20"
LEVEL = "exploration"
ENGINE = "opmachine"

TIERS = {"quick": {"runs": 1600, "budget": 75.0, "cap": 150.0},
         "thorough": {"runs": 200000, "budget": 900.0, "cap": 300.0}}

LAYOUTS = ["c", "f", "strided", "readonly", "f_readonly"]
CUTOFFS = ["exponential", "gaussian", "hard"]
JFUNCS = ["ohmic", "super", "lorentz"]
CFUNCS = ["expdecay", "osc"]
ATTRS = {
    "powerlaw": ["alpha", "zeta", "cutoff", "cutoff_type", "temperature"],
    "customsd": ["cutoff", "cutoff_type", "temperature", "j_function"],
    "customcorr": ["correlation_function"],
}
EVALS = {
    "powerlaw": ["corr", "int2d", "eta", "sd"],
    "customsd": ["corr", "int2d", "eta", "sd"],
    "customcorr": ["corr", "int2d"],
}
BATH_GETTERS = ["coupling_operator", "unitary_transform", "coupling_comm",
                "coupling_acomm", "north_degeneracy_map",
                "west_degeneracy_map"]


def _pick(rng, seq, weights=None):
    if weights is None:
        return seq[rng.randrange(len(seq))]
    return rng.choices(seq, weights=weights, k=1)[0]


def _r(rng, lo, hi, nd=3):
    return round(rng.uniform(lo, hi), nd)


def _attr_value(rng, name):
    if name == "alpha":
        return _r(rng, 0.05, 0.8)
    if name == "zeta":
        return _pick(rng, [1.0, 2.0, 3.0])
    if name == "cutoff":
        return _r(rng, 1.0, 5.0)
    if name == "cutoff_type":
        return _pick(rng, CUTOFFS)
    if name == "temperature":
        return _pick(rng, [0.0, 0.5, 1.5, 3.0])
    if name == "j_function":
        return _pick(rng, JFUNCS)
    if name == "correlation_function":
        return _pick(rng, CFUNCS)
    raise ValueError(name)


class _Frozen(Exception):
    """An operation of the history cannot go on: reported already."""


SHARED_KINDS = ["td_system", "control", "bath_two_dt", "gibbs_pair",
                "pt_in_tebd", "parameters", "chain_control", "param_table",
                "open_params", "guess_parameters", "td_interleaved",
                "param_system_two_dt", "bath_dynamics", "long_file_pt"]


def gen_corr(rng):
    kind = _pick(rng, ["powerlaw", "customsd", "customcorr"], [5, 3, 1])
    if kind == "powerlaw":
        vals = {a: _attr_value(rng, a) for a in ATTRS["powerlaw"]}
    elif kind == "customsd":
        vals = {a: _attr_value(rng, a) for a in ATTRS["customsd"]}
    else:
        vals = {"correlation_function": _attr_value(
            rng, "correlation_function")}
    return kind, vals


def gen_case(rng, tier="quick"):
    ops = []
    kind, vals = gen_corr(rng)
    ops.append(["new_corr", kind, vals])
    n = rng.randrange(4, 11)
    kinds = ["new_corr", "set_attr", "eval", "new_bath",
             "bath_eval", "scribble_bath", "tempo", "pt",
             "dynamics", "gradient", "tebd", "mutate_after",
             "fault_then", "system_use", "probe", "shared", "flood"]
    weights = [1, 5, 6, 4, 4, 1, 2, 2, 3, 1, 2, 2, 1, 5, 4, 5, 0.4]
    shared_kinds = list(SHARED_KINDS)
    if rng.random() < 0.5:
        # swarm: this history uses only some of the operation kinds, so
        # the same few objects are used again and again
        mask = [rng.random() < 0.35 for _ in kinds]
        if sum(mask) < 2:
            for i in rng.sample(range(len(kinds)), 2):
                mask[i] = True
        weights = [w + 1 if m else 0 for w, m in zip(weights, mask)]
        shared_kinds = rng.sample(shared_kinds, rng.randrange(1, 4))
    for _ in range(n):
        k = _pick(rng, kinds, weights)
        if k == "shared":
            # long-lived shared objects used again with other arguments
            ops.append(["shared", _pick(rng, shared_kinds),
                        rng.randrange(3), rng.randrange(1, 4),
                        rng.randrange(6)])
            continue
        if k == "new_corr":
            kind, vals = gen_corr(rng)
            ops.append(["new_corr", kind, vals])
        elif k == "set_attr":
            ops.append(["set_attr", rng.randrange(8), rng.randrange(8),
                        rng.randrange(1 << 20)])
        elif k == "eval":
            ops.append(["eval", rng.randrange(8), rng.randrange(8),
                        rng.randrange(5)])
        elif k == "flood":
            # many different questions to one object, then the first ones
            # again (bounded caches, tables that are rebuilt when full)
            ops.append(["flood", rng.randrange(8), rng.randrange(8),
                        _pick(rng, [40, 140, 300])])
        elif k == "probe":
            # memo probe: evaluate, change one attribute, evaluate the very
            # same thing again (three plain operations, so still shrinkable)
            ci, what, arg = (rng.randrange(8), rng.randrange(8),
                             rng.randrange(5))
            ops.append(["eval", ci, what, arg])
            ops.append(["set_attr", ci, rng.randrange(8),
                        rng.randrange(1 << 20)])
            ops.append(["eval", ci, what, arg])
        elif k == "new_bath":
            ops.append(["new_bath", rng.randrange(8),
                        _pick(rng, ["z", "x", "zx"]), _pick(rng, LAYOUTS)])
        elif k == "bath_eval":
            ops.append(["bath_eval", rng.randrange(8), rng.randrange(8),
                        rng.randrange(5)])
        elif k == "scribble_bath":
            ops.append(["scribble_bath", rng.randrange(8),
                        _pick(rng, BATH_GETTERS)])
        elif k == "tempo":
            ops.append(["tempo", rng.randrange(8), _pick(rng, LAYOUTS),
                        _pick(rng, LAYOUTS), rng.randrange(2, 4)])
        elif k == "pt":
            ops.append(["pt", rng.randrange(8), rng.randrange(2, 4)])
        elif k == "dynamics":
            ops.append(["dynamics", rng.randrange(8), _pick(rng, LAYOUTS),
                        _pick(rng, LAYOUTS)])
        elif k == "gradient":
            ops.append(["gradient", rng.randrange(8), _pick(rng, LAYOUTS),
                        _pick(rng, LAYOUTS), _pick(rng, LAYOUTS)])
        elif k == "tebd":
            ops.append(["tebd", _pick(rng, LAYOUTS), _pick(rng, LAYOUTS),
                        rng.randrange(2, 4)])
        elif k == "mutate_after":
            ops.append(["mutate_after", _pick(rng, ["system", "bath", "mps",
                                                    "control", "pt_tensor",
                                                    "pt_edit",
                                                    "bath_getter"]),
                        _pick(rng, LAYOUTS)])
        elif k == "fault_then":
            ops.append(["fault_then", rng.randrange(8), rng.randrange(1, 4)])
        else:
            # one of a few shared System objects, with varying time step,
            # number of steps, start time and consumer
            ops.append(["system_use", rng.randrange(3), _pick(rng, LAYOUTS),
                        rng.randrange(3), rng.randrange(1, 4),
                        _pick(rng, ["dynamics", "tempo", "propagators",
                                    "dynamics_pt"])])
    return {"ops": ops}


def shrink(case):
    ops = case["ops"]
    return [{"ops": ops[:i] + ops[i + 1:]} for i in range(len(ops))]


def prepare_worker():
    import oqupy  # noqa: F401
    warnings.simplefilter("ignore")


# ---------------------------------------------------------------------------
# plain-value model -> objects

def _jfunc(name):
    if name == "ohmic":
        return lambda w: 0.3 * w
    if name == "super":
        return lambda w: 0.1 * w ** 3
    return lambda w: 0.5 * w / (1.0 + (w - 1.5) ** 2)


def _cfunc(name):
    if name == "expdecay":
        return lambda t: (0.4 - 0.1j) * np.exp(-2.0 * np.abs(t))
    return lambda t: 0.3 * np.exp(-1.0 * np.abs(t)) * np.exp(-2j * t)


# the very same callables are used for the object under test and the fresh
# replay (CustomSD keeps whatever callable it is given)
_FUNCS = {}


def _named(name, table):
    key = (table.__name__, name)
    if key not in _FUNCS:
        _FUNCS[key] = table(name)
    return _FUNCS[key]


def make_corr(kind, vals):
    import oqupy
    if kind == "powerlaw":
        return oqupy.PowerLawSD(
            alpha=vals["alpha"], zeta=vals["zeta"], cutoff=vals["cutoff"],
            cutoff_type=vals["cutoff_type"], temperature=vals["temperature"])
    if kind == "customsd":
        return oqupy.CustomSD(
            _named(vals["j_function"], _jfunc), cutoff=vals["cutoff"],
            cutoff_type=vals["cutoff_type"], temperature=vals["temperature"])
    return oqupy.CustomCorrelations(
        _named(vals["correlation_function"], _cfunc))


def apply_attr(obj, kind, name, value):
    if name == "j_function":
        obj.j_function = np.vectorize(_named(value, _jfunc))
    elif name == "correlation_function":
        obj.correlation_function = np.vectorize(_named(value, _cfunc))
    else:
        setattr(obj, name, value)


def evaluate(obj, what, arg):
    tau = [0.05, 0.3, 1.0, 0.0, 2.5][arg]
    if what == "corr":
        return complex(obj.correlation(tau))
    if what == "sd":
        return complex(obj.spectral_density([0.2, 1.0, 2.0, 3.5, 6.0][arg]))
    if what == "eta":
        return complex(obj.eta_function(tau + 0.05))
    shape = ["square", "upper-triangle", "square", "rectangle",
             "square"][arg]
    if shape == "rectangle":
        return complex(obj.correlation_2d_integral(
            delta=0.1, time_1=0.3, time_2=0.45, shape=shape))
    t1 = [0.1, 0.0, 0.2, 0.0, 0.3][arg]
    return complex(obj.correlation_2d_integral(delta=0.1, time_1=t1,
                                               shape=shape))


def evaluate_at(obj, what, x):
    """Like evaluate(), at a freely chosen argument."""
    if what == "corr":
        return complex(obj.correlation(x))
    if what == "sd":
        return complex(obj.spectral_density(x))
    if what == "eta":
        return complex(obj.eta_function(x))
    return complex(obj.correlation_2d_integral(delta=0.1, time_1=x,
                                               shape="square"))


def layout(arr, kind):
    """The same values in a different memory layout (a caller array)."""
    arr = np.array(arr, dtype=complex)
    if kind == "c":
        out = np.ascontiguousarray(arr)
    elif kind in ("f", "f_readonly"):
        out = np.asfortranarray(arr)
    elif kind == "strided":
        big = np.zeros(tuple(2 * s for s in arr.shape), dtype=complex) + 7.5
        view = big[tuple(slice(None, None, 2) for _ in arr.shape)]
        view[...] = arr
        out = view
    else:
        out = np.ascontiguousarray(arr)
    if kind in ("readonly", "f_readonly"):
        out.setflags(write=False)
    return out


def fingerprint(a):
    return (a.tobytes(), a.shape, a.strides, a.flags.writeable,
            a.flags.c_contiguous, a.flags.f_contiguous, str(a.dtype))


def obj_state(obj, depth=0):
    """Hashable summary of everything an object holds (arrays by content)."""
    if isinstance(obj, np.ndarray):
        return ("nd", obj.shape, str(obj.dtype), obj.tobytes())
    if isinstance(obj, (int, float, complex, str, bool, type(None))):
        return obj
    if isinstance(obj, (list, tuple)):
        return tuple(obj_state(x, depth + 1) for x in obj)
    if isinstance(obj, dict):
        return tuple(sorted((str(k), obj_state(v, depth + 1))
                            for k, v in obj.items()))
    if callable(obj) and not hasattr(obj, "__dict__"):
        return "callable"
    if hasattr(obj, "__dict__") and depth < 4:
        return tuple(sorted((k, obj_state(v, depth + 1))
                            for k, v in vars(obj).items()
                            if not callable(v) or isinstance(v, np.ndarray)))
    return "opaque"


class ObjGuard:
    """A parameter object supplied by the caller must come back unchanged."""

    def __init__(self, viol):
        self.viol = viol
        self.items = []

    def add(self, name, obj):
        self.items.append((name, obj, obj_state(obj)))
        return obj

    def check(self, what):
        for name, obj, st in self.items:
            if obj_state(obj) != st:
                self.viol("caller_object_modified", "%s/%s" % (what, name),
                          "%s: the caller's %s object (%s) was modified by "
                          "the call" % (what, name, type(obj).__name__),
                          call=what, object=name)


class Guard:
    """Bytewise before/after comparison of caller arrays around a call."""

    def __init__(self, viol, what):
        self.viol = viol
        self.what = what
        self.arrays = []

    def add(self, name, arr):
        self.arrays.append((name, arr, fingerprint(arr)))
        return arr

    def check(self):
        for name, arr, fp in self.arrays:
            now = fingerprint(arr)
            if now != fp:
                field = ["content", "shape", "strides", "writeable flag",
                         "contiguity", "contiguity", "dtype"][
                    [i for i in range(7) if now[i] != fp[i]][0]]
                self.viol("caller_array_modified",
                          "%s/%s" % (self.what, name),
                          "%s: the %s of the caller's array '%s' changed "
                          "during the call" % (self.what, field, name),
                          call=self.what, array=name)


def _close(a, b, tol):
    a = np.asarray(a)
    b = np.asarray(b)
    if a.shape != b.shape:
        return False, float("inf")
    if a.size == 0:
        return True, 0.0
    scale = max(1.0, float(np.max(np.abs(b))))
    err = float(np.max(np.abs(a - b)))
    if err <= tol * scale:
        MARGIN[0] = max(MARGIN[0], err / (tol * scale))
    return err <= tol * scale, err


COUPLINGS = {"z": lambda o: 0.5 * o["z"], "x": lambda o: 0.5 * o["x"],
             "zx": lambda o: 0.4 * o["z"] + 0.3 * o["x"]}
# truncation far below the tolerance of the comparisons that involve a
# TEMPO/PT-TEMPO computation (TOL_T): two runs of the same computation can
# differ by ~100 x epsrel when a singular value sits on the threshold
EPSREL = 1e-10
TOL_T = 1e-6
TOL = 1e-9
# an unnormalised, complex initial state: in-place normalisation,
# conjugation or symmetrisation of a caller array all leave a trace on it
RHO0 = np.array([[0.6, 0.1 + 0.2j], [0.1 - 0.2j, 0.3]])


# ---------------------------------------------------------------------------
# references recomputed in a process that has not run the history

def ref_eval(kind, vals, what, arg):
    return evaluate(make_corr(kind, vals), what, arg)


def ref_tempo(kind, vals, coupling, steps):
    import oqupy
    o = models.ops()
    bath = oqupy.Bath(COUPLINGS[coupling](o), make_corr(kind, vals))
    tp = oqupy.TempoParameters(dt=0.1, epsrel=EPSREL, dkmax=2)
    t = oqupy.Tempo(oqupy.System(0.7 * o["x"] + 0.2 * o["z"]), bath, tp,
                    np.array(RHO0), 0.0)
    return t.compute((steps + 0.5) * 0.1, progress_type="silent").states


def ref_pt_dynamics(kind, vals, coupling, steps):
    import oqupy
    o = models.ops()
    bath = oqupy.Bath(COUPLINGS[coupling](o), make_corr(kind, vals))
    tp = oqupy.TempoParameters(dt=0.1, epsrel=EPSREL, dkmax=2)
    pt = oqupy.pt_tempo_compute(bath, 0.0, (steps + 0.5) * 0.1, tp,
                                progress_type="silent")
    return oqupy.compute_dynamics(
        oqupy.System(0.6 * o["x"] + 0.3 * o["y"]), np.array(RHO0),
        process_tensor=pt, progress_type="silent").states


REF_FUNCS = {"eval": ref_eval, "tempo": ref_tempo,
             "pt_dynamics": ref_pt_dynamics}


class PristineServer:
    """A child forked before the history starts.  On request it forks a
    grandchild that computes one reference from plain data and sends it back:
    every such reference comes from a process that has executed nothing of
    the history (no memo, no module-level state of earlier computations)."""

    def __init__(self):
        import os
        import pickle
        self.req_r, self.req_w = os.pipe()
        self.res_r, self.res_w = os.pipe()
        self.pid = os.fork()
        if self.pid == 0:
            try:
                os.close(self.req_w)
                os.close(self.res_r)
                with os.fdopen(self.req_r, "rb") as fin, \
                        os.fdopen(self.res_w, "wb") as fout:
                    while True:
                        try:
                            name, args = pickle.load(fin)
                        except EOFError:
                            break
                        r, w = os.pipe()
                        gpid = os.fork()
                        if gpid == 0:
                            try:
                                os.close(r)
                                try:
                                    out = ("ok", np.asarray(
                                        REF_FUNCS[name](*args)))
                                except Exception as e:  # noqa: BLE001
                                    out = ("exc", repr(e))
                                with os.fdopen(w, "wb") as f:
                                    pickle.dump(out, f)
                            finally:
                                os._exit(0)
                        os.close(w)
                        with os.fdopen(r, "rb") as f:
                            data = f.read()
                        os.waitpid(gpid, 0)
                        pickle.dump(pickle.loads(data) if data
                                    else ("exc", "died"), fout)
                        fout.flush()
            finally:
                os._exit(0)
        os.close(self.req_r)
        os.close(self.res_w)
        self.fin = os.fdopen(self.res_r, "rb")
        self.fout = os.fdopen(self.req_w, "wb")

    def call(self, name, args):
        import pickle
        pickle.dump((name, args), self.fout)
        self.fout.flush()
        return pickle.load(self.fin)

    def close(self):
        import os
        try:
            self.fout.close()
            self.fin.close()
            os.waitpid(self.pid, 0)
        except OSError:
            pass


def run_case(case, dec):
    import oqupy
    pristine = PristineServer()
    try:
        return _run_case(case, dec, pristine)
    finally:
        pristine.close()
        import shutil
        while _TMPDIRS:
            shutil.rmtree(_TMPDIRS.pop(), ignore_errors=True)


_TMPDIRS = []       # scratch directories of this run (real files)


def _run_case(case, dec, pristine):
    import oqupy
    spot = []    # (name, args, in-process reference, tolerance)
    log = EventLog()
    o = models.ops()
    violations = []
    stats = {"evals": 0, "set_attr": 0, "bath_evals": 0, "computations": 0,
             "arrays_guarded": 0, "layouts": 0, "scribbles": 0,
             "stale_candidates": 0}

    def viol(cls, sig, detail, **fields):
        violations.append({"class": cls, "signature": sig, "detail": detail,
                           "fields": fields})

    shared_systems = {}
    shared_objs = {}
    corrs = []   # {"obj", "kind", "vals"(current), "touched": set(attrs)}
    baths = []   # {"obj", "kind", "vals"(at construction), "coupling"}
    pts = []     # {"obj", "bath": index, "steps"}

    def pars(steps):
        return oqupy.TempoParameters(dt=0.1, epsrel=EPSREL, dkmax=2)

    def overwrite(arr, value, what):
        """The caller re-uses an array of its own after handing it to the
        library; if the library made that very array read-only, the caller's
        program dies here - that is the library's doing, not the caller's."""
        try:
            arr[...] = value
        except ValueError as e:
            viol("caller_array_modified", "%s/flags" % what,
                 "an array handed to %s can no longer be written by its "
                 "owner afterwards (%s): the library changed the flags of "
                 "the caller's array instead of its own copy" % (
                     what, str(e)[:60]), call=what, array="flags")
            raise _Frozen() from None

    def fresh_bath(b):
        return oqupy.Bath(COUPLINGS[b["coupling"]](o),
                          make_corr(b["kind"], b["vals"]))

    def need_bath():
        if not corrs:
            vals = {"alpha": 0.2, "zeta": 1.0, "cutoff": 3.0,
                    "cutoff_type": "exponential", "temperature": 0.5}
            corrs.append({"obj": make_corr("powerlaw", vals),
                          "kind": "powerlaw", "vals": vals,
                          "touched": set()})
        if not baths:
            c = corrs[0]
            baths.append({"obj": oqupy.Bath(COUPLINGS["z"](o), c["obj"]),
                          "kind": c["kind"], "vals": dict(c["vals"]),
                          "coupling": "z", "source": 0, "layout": "c"})

    def need_pt():
        need_bath()
        if not pts:
            pts.append({"obj": oqupy.pt_tempo_compute(
                baths[0]["obj"], 0.0, 2.5 * 0.1, pars(2),
                progress_type="silent"), "bath": 0, "steps": 2})

    for op in case["ops"]:
        if len(violations) >= 2:
            break
        k = op[0]
        if k in ("tempo", "pt", "bath_eval", "scribble_bath"):
            need_bath()
        if k in ("dynamics", "fault_then", "gradient"):
            need_pt()
        try:
            if k == "new_corr":
                corrs.append({"obj": make_corr(op[1], op[2]), "kind": op[1],
                              "vals": dict(op[2]), "touched": set()})
                log.ev("new_corr", op[1])
            elif k == "set_attr":
                if not corrs:
                    continue
                c = corrs[op[1] % len(corrs)]
                names = ATTRS[c["kind"]]
                name = names[op[2] % len(names)]
                import random
                value = _attr_value(random.Random(op[3]), name)
                apply_attr(c["obj"], c["kind"], name, value)
                c["vals"][name] = value
                c["touched"].add(name)
                stats["set_attr"] += 1
                log.ev("set_attr", op[1] % len(corrs), name, str(value))
            elif k == "flood":
                if not corrs:
                    continue
                ci = op[1] % len(corrs)
                c = corrs[ci]
                what = EVALS[c["kind"]][op[2] % len(EVALS[c["kind"]])]
                count = op[3] if what == "sd" else min(op[3], 140)
                first = [evaluate(c["obj"], what, a) for a in range(5)]
                xs = [0.011 + 0.0137 * j for j in range(count)]
                during = [evaluate_at(c["obj"], what, x) for x in xs]
                again = [evaluate(c["obj"], what, a) for a in range(5)]
                fresh = make_corr(c["kind"], c["vals"])
                want = [evaluate(fresh, what, a) for a in range(5)]
                # the fresh object is asked in the opposite order (only a
                # sample of the questions where each one costs an integral)
                if what != "sd":
                    keep = list(range(0, count, 9))
                    xs = [xs[i] for i in keep]
                    during = [during[i] for i in keep]
                want_during = [evaluate_at(fresh, what, x)
                               for x in reversed(xs)][::-1]
                stats["evals"] += 2 * count + 15
                ok1, e1 = _close(np.array(first), np.array(want), TOL)
                ok2, e2 = _close(np.array(again), np.array(want), TOL)
                ok3, e3 = _close(np.array(during), np.array(want_during),
                                 TOL)
                log.ev("flood", ci, what, count, ok1, ok2, ok3)
                if not (ok1 and ok2 and ok3):
                    viol("stale_after_attribute_change"
                         if c["touched"] and not ok1
                         else "reuse_changes_result",
                         "%s/%s/flood" % (c["kind"], what),
                         "%s.%s: after %d evaluations at other arguments "
                         "the object answers differently from a fresh "
                         "object with the same parameters (before the "
                         "series: %.3g, in it: %.3g, after it: %.3g)" % (
                             c["kind"], what, count, e1, e3, e2),
                         holder=c["kind"], method=what)
            elif k == "eval":
                if not corrs:
                    continue
                ci = op[1] % len(corrs)
                c = corrs[ci]
                what = EVALS[c["kind"]][op[2] % len(EVALS[c["kind"]])]
                if c["vals"].get("temperature") == 0.0 and False:
                    continue
                got = evaluate(c["obj"], what, op[3])
                want = evaluate(make_corr(c["kind"], c["vals"]), what, op[3])
                spot.append(("eval", (c["kind"], dict(c["vals"]), what,
                                      op[3]), want, TOL))
                stats["evals"] += 1
                if c["touched"]:
                    stats["stale_candidates"] += 1
                ok, err = _close(got, want, TOL)
                log.ev("eval", ci, what, op[3], ok)
                if not ok:
                    viol("stale_after_attribute_change"
                         if c["touched"] else "reuse_changes_result",
                         "%s/%s/%s" % (c["kind"], what, "+".join(
                             sorted(c["touched"])) or "-"),
                         "%s.%s differs from a fresh object with the current "
                         "parameter values by %.3g after changing %s" % (
                             c["kind"], what, err,
                             sorted(c["touched"]) or "nothing"),
                         holder=c["kind"], method=what,
                         attribute="|".join(sorted(c["touched"])))
            elif k == "new_bath":
                if not corrs:
                    continue
                ci = op[1] % len(corrs)
                c = corrs[ci]
                g = Guard(viol, "Bath()")
                arr = g.add("coupling_operator",
                            layout(COUPLINGS[op[2]](o), op[3]))
                stats["arrays_guarded"] += 1
                b = oqupy.Bath(arr, c["obj"])
                g.check()
                baths.append({"obj": b, "kind": c["kind"],
                              "vals": dict(c["vals"]), "coupling": op[2],
                              "source": ci, "layout": op[3]})
                log.ev("new_bath", ci, op[2], op[3])
            elif k == "bath_eval":
                if not baths:
                    continue
                bi = op[1] % len(baths)
                b = baths[bi]
                what = EVALS[b["kind"]][op[2] % len(EVALS[b["kind"]])]
                got = evaluate(b["obj"].correlations, what, op[3])
                want = evaluate(make_corr(b["kind"], b["vals"]), what, op[3])
                stats["bath_evals"] += 1
                src = corrs[b["source"]]
                changed = sorted(a for a in src["touched"]
                                 if src["vals"].get(a) != b["vals"].get(a))
                ok, err = _close(got, want, TOL)
                log.ev("bath_eval", bi, what, op[3], ok)
                if not ok:
                    viol("earlier_object_affected" if changed
                         else "reuse_changes_result",
                         "Bath/%s/%s/%s" % (b["kind"], what,
                                            "+".join(changed) or "-"),
                         "a Bath built earlier answers %s differently (by "
                         "%.3g) from a fresh bath with its construction-time "
                         "parameters; the original correlations object has "
                         "since had %s changed" % (what, err,
                                                   changed or "nothing"),
                         holder="Bath", method=what,
                         attribute="|".join(changed))
            elif k == "scribble_bath":
                if not baths:
                    continue
                b = baths[op[1] % len(baths)]
                before = np.array(getattr(b["obj"], op[2]))
                handed = getattr(b["obj"], op[2])
                try:
                    handed[...] = 99
                except (ValueError, TypeError):
                    pass  # read-only hand-outs are fine too
                after = np.array(getattr(b["obj"], op[2]))
                stats["scribbles"] += 1
                log.ev("scribble", op[2])
                if before.tobytes() != after.tobytes():
                    viol("getter_exposes_internal_state", "Bath." + op[2],
                         "writing into the array returned by Bath.%s changed "
                         "the bath" % op[2], holder="Bath", method=op[2])
            elif k == "tempo":
                if not baths:
                    continue
                bi = op[1] % len(baths)
                b = baths[bi]
                steps = op[4]
                g = Guard(viol, "Tempo")
                ham = g.add("hamiltonian",
                            layout(0.7 * o["x"] + 0.2 * o["z"], op[2]))
                rho = g.add("initial_state", layout(RHO0, op[3]))
                stats["arrays_guarded"] += 2
                stats["layouts"] += int(op[2] != "c") + int(op[3] != "c")
                t = oqupy.Tempo(oqupy.System(ham), b["obj"], pars(steps), rho,
                                0.0)
                got = t.compute((steps + 0.5) * 0.1,
                                progress_type="silent").states
                g.check()
                t2 = oqupy.Tempo(oqupy.System(0.7 * o["x"] + 0.2 * o["z"]),
                                 fresh_bath(b), pars(steps), np.array(RHO0),
                                 0.0)
                want = t2.compute((steps + 0.5) * 0.1,
                                  progress_type="silent").states
                spot.append(("tempo", (b["kind"], dict(b["vals"]),
                                       b["coupling"], steps), want, TOL_T))
                stats["computations"] += 1
                ok, err = _close(got, want, TOL_T)
                log.ev("tempo", bi, op[2], op[3], ok)
                if not ok:
                    viol("computation_differs_from_fresh_replay",
                         "Tempo/%s/%s" % (op[2], op[3]),
                         "Tempo on re-used objects / %s,%s-layout arrays "
                         "differs from the fresh replay by %.3g" % (
                             op[2], op[3], err), call="Tempo")
            elif k == "pt":
                if not baths:
                    continue
                bi = op[1] % len(baths)
                b = baths[bi]
                pt = oqupy.pt_tempo_compute(
                    b["obj"], 0.0, (op[2] + 0.5) * 0.1, pars(op[2]),
                    progress_type="silent")
                pts.append({"obj": pt, "bath": bi, "steps": op[2]})
                stats["computations"] += 1
                log.ev("pt", bi, op[2])
            elif k in ("dynamics", "fault_then"):
                if not pts:
                    continue
                pi = op[1] % len(pts)
                p = pts[pi]
                b = baths[p["bath"]]
                fresh_pt = oqupy.pt_tempo_compute(
                    fresh_bath(b), 0.0, (p["steps"] + 0.5) * 0.1,
                    pars(p["steps"]), progress_type="silent")
                if k == "dynamics":
                    g = Guard(viol, "compute_dynamics")
                    ham = g.add("hamiltonian",
                                layout(0.6 * o["x"] + 0.3 * o["y"], op[2]))
                    rho = g.add("initial_state", layout(RHO0, op[3]))
                    stats["arrays_guarded"] += 2
                    stats["layouts"] += int(op[2] != "c") + int(op[3] != "c")
                    got = oqupy.compute_dynamics(
                        oqupy.System(ham), rho, process_tensor=p["obj"],
                        progress_type="silent").states
                    g.check()
                else:
                    plan = models.FaultPlan()

                    def ham_t(t):
                        return 0.6 * o["x"] * (1 + 0.1 * t) + 0.3 * o["y"]
                    sysf = oqupy.TimeDependentSystem(models.faulty(
                        "hamiltonian", ham_t, plan,
                        models.step_of_time(0.0, 0.1)))
                    plan.arm("hamiltonian", {
                        "mode": "step", "k": min(op[2], p["steps"] - 1)})
                    try:
                        oqupy.compute_dynamics(
                            sysf, o["up"], process_tensor=p["obj"],
                            subdiv_limit=None, progress_type="silent")
                    except InjectedFault:
                        pass
                    got = oqupy.compute_dynamics(
                        oqupy.System(0.6 * o["x"] + 0.3 * o["y"]), RHO0,
                        process_tensor=p["obj"],
                        progress_type="silent").states
                want = oqupy.compute_dynamics(
                    oqupy.System(0.6 * o["x"] + 0.3 * o["y"]),
                    np.array(RHO0),
                    process_tensor=fresh_pt, progress_type="silent").states
                spot.append(("pt_dynamics", (b["kind"], dict(b["vals"]),
                                             b["coupling"], p["steps"]),
                             want, TOL_T))
                stats["computations"] += 1
                ok, err = _close(got, want, TOL_T)
                log.ev(k, pi, ok)
                if not ok:
                    viol("computation_differs_from_fresh_replay",
                         "compute_dynamics/%s" % k,
                         "compute_dynamics with a re-used process tensor "
                         "differs from the fresh replay by %.3g" % err,
                         call="compute_dynamics")
            elif k == "gradient":
                if not pts:
                    continue
                p = pts[op[1] % len(pts)]
                n = p["steps"]
                g = Guard(viol, "state_gradient")
                rho = g.add("initial_state", layout(RHO0, op[2]))
                tgt = g.add("target_derivative", layout(RHO0.T * 0.7, op[3]))
                base = np.array([[1.0 + 0.1 * i, 0.4 - 0.05 * i]
                                 for i in range(2 * n)])
                prm = layout(base, op[4]).real if op[4] in (
                    "c", "readonly") else np.asfortranarray(base)
                if op[4] in ("readonly", "f_readonly"):
                    prm.setflags(write=False)
                g.add("parameters", prm)
                stats["arrays_guarded"] += 3

                def hamp(x, y):
                    return 0.5 * x * o["x"] + 0.5 * y * o["z"]
                res = oqupy.state_gradient(
                    system=oqupy.ParameterizedSystem(hamp),
                    initial_state=rho, target_derivative=tgt,
                    process_tensors=[p["obj"]], parameters=prm,
                    progress_type="silent")
                g.check()
                res2 = oqupy.state_gradient(
                    system=oqupy.ParameterizedSystem(hamp),
                    initial_state=np.array(RHO0),
                    target_derivative=np.array(RHO0.T * 0.7),
                    process_tensors=[p["obj"]], parameters=np.array(base),
                    progress_type="silent")
                stats["computations"] += 1
                ok, err = _close(res["gradient"], res2["gradient"], 1e-7)
                log.ev("gradient", op[2], op[3], op[4], ok)
                if not ok:
                    viol("result_depends_on_memory_layout",
                         "state_gradient/%s/%s/%s" % (op[2], op[3], op[4]),
                         "gradient with %s/%s/%s-layout arrays differs from "
                         "the C-ordered call by %.3g" % (op[2], op[3], op[4],
                                                         err),
                         call="state_gradient")
            elif k == "tebd":
                g = Guard(viol, "AugmentedMPS/PtTebd")
                a0 = g.add("site0", layout(RHO0, op[1]))
                a1 = g.add("site1", layout(RHO0.T, op[2]))
                stats["arrays_guarded"] += 2
                stats["layouts"] += int(op[1] != "c") + int(op[2] != "c")

                def run(x0, x1):
                    chain = oqupy.SystemChain([2, 2])
                    chain.add_site_hamiltonian(0, 0.3 * o["z"])
                    chain.add_site_hamiltonian(1, 0.2 * o["x"])
                    chain.add_nn_hamiltonian(0, 0.5 * o["x"], o["x"])
                    mps = oqupy.AugmentedMPS([x0, x1])
                    tp = oqupy.PtTebdParameters(dt=0.1, order=2, epsrel=1e-10)
                    t = oqupy.PtTebd(mps, chain, [None, None], tp,
                                     dynamics_sites=[0, 1])
                    r = t.compute(op[3], progress_type="silent")
                    return np.concatenate([r["dynamics"][0].states.ravel(),
                                           r["dynamics"][1].states.ravel()])
                try:
                    got = run(a0, a1)
                except Exception as e:  # noqa: BLE001
                    g.check()
                    viol("result_depends_on_memory_layout",
                         "AugmentedMPS/%s/%s/%s" % (op[1], op[2],
                                                    type(e).__name__),
                         "a chain state built from %s/%s-layout density "
                         "matrices raises %s: %s (the same values in C order "
                         "work)" % (op[1], op[2], type(e).__name__,
                                    str(e)[:100]),
                         call="AugmentedMPS", layout="%s|%s" % (op[1], op[2]))
                    continue
                g.check()
                want = run(np.array(RHO0), np.array(RHO0.T))
                stats["computations"] += 1
                ok, err = _close(got, want, 1e-9)
                log.ev("tebd", op[1], op[2], ok)
                if not ok:
                    viol("result_depends_on_memory_layout",
                         "PtTebd/%s/%s" % (op[1], op[2]),
                         "PT-TEBD from %s/%s-layout arrays differs by %.3g"
                         % (op[1], op[2], err), call="PtTebd")
            elif k == "mutate_after":
                which = op[1]
                if which == "system":
                    arr = layout(0.7 * o["x"] + 0.2 * o["z"], op[2] if op[2]
                                 not in ("readonly", "f_readonly") else "c")
                    s = oqupy.System(arr)
                    overwrite(arr, 5.0, "System()")  # array re-used
                    got = s.liouvillian()
                    want = oqupy.System(
                        0.7 * o["x"] + 0.2 * o["z"]).liouvillian()
                elif which == "bath":
                    arr = layout(0.5 * o["z"], op[2] if op[2] not in (
                        "readonly", "f_readonly") else "c")
                    corr = oqupy.PowerLawSD(0.2, 1.0, 3.0)
                    b = oqupy.Bath(arr, corr)
                    overwrite(arr, 5.0, "Bath()")
                    got = b.coupling_operator
                    want = oqupy.Bath(0.5 * o["z"], corr).coupling_operator
                elif which in ("pt_tensor", "pt_edit"):
                    # a hand-built process tensor: the caller's work buffers
                    # are re-used afterwards (pt_tensor) / a tensor is
                    # replaced through the public setter between two uses
                    # (pt_edit)
                    rngp = np.random.default_rng(17)

                    def tens(scale):
                        return [(rngp.normal(size=sh)
                                 + 1j * rngp.normal(size=sh)) * scale
                                for sh in ((1, 2, 4, 4), (2, 1, 4, 4))]

                    def build(ts, keep=None):
                        pt = oqupy.process_tensor.SimpleProcessTensor(
                            hilbert_space_dimension=2, dt=0.1)
                        for kk, t in enumerate(ts):
                            buf = np.array(t)
                            pt.set_mpo_tensor(kk, buf)
                            if keep is not None:
                                keep.append(buf)
                        pt.compute_caps()
                        return pt

                    def use(pt):
                        return oqupy.compute_dynamics(
                            oqupy.System(0.5 * o["x"]), RHO0,
                            process_tensor=pt,
                            progress_type="silent").states
                    t1 = tens(0.4)
                    if which == "pt_tensor":
                        bufs = []
                        pt = build(t1, bufs)
                        for b_ in bufs:
                            overwrite(b_, 7.0, "set_mpo_tensor")
                        got = use(pt)
                        want = use(build(t1))
                    else:
                        pt = build(t1)
                        use(pt)                  # first use (may memoise)
                        new1 = tens(0.3)[1]
                        pt.set_mpo_tensor(1, np.array(new1))
                        pt.compute_caps()
                        got = use(pt)
                        want = use(build([t1[0], new1]))
                elif which == "bath_getter":
                    # a computation is set up from a bath; afterwards the
                    # caller changes the object that bath.correlations
                    # handed out; the computation set up earlier must not
                    # notice (whether or not the bath itself follows)
                    need_bath()
                    cands = [x for x in baths if x["kind"] == "powerlaw"]
                    if not cands:
                        continue
                    b = cands[0]
                    tp = oqupy.TempoParameters(dt=0.1, epsrel=EPSREL,
                                               dkmax=2)

                    def mkt(bath):
                        return oqupy.Tempo(oqupy.System(0.5 * o["x"]), bath,
                                           tp, RHO0, 0.0)
                    early = mkt(b["obj"])
                    fresh_early = mkt(fresh_bath(b))
                    handed = b["obj"].correlations
                    handed.temperature = float(b["vals"]["temperature"]) + 2.5
                    handed.alpha = float(b["vals"]["alpha"]) * 2.0
                    got = early.compute(0.35, progress_type="silent").states
                    want = fresh_early.compute(
                        0.35, progress_type="silent").states
                    # the model follows whatever the bath now says about
                    # itself (public attributes)
                    now = b["obj"].correlations
                    b["vals"]["temperature"] = float(now.temperature)
                    b["vals"]["alpha"] = float(now.alpha)
                    ok, err = _close(got, want, TOL_T)
                    stats["computations"] += 1
                    log.ev("mutate_after", which, ok)
                    if not ok:
                        viol("object_follows_callers_array", which,
                             "a Tempo object set up from a bath changed "
                             "(by %.3g) when the caller later modified the "
                             "object handed out by bath.correlations" % err,
                             holder="Bath.correlations")
                    continue
                elif which == "mps":
                    arr = layout(o["up"], "c")
                    mps = oqupy.AugmentedMPS([arr, arr])
                    overwrite(arr, 5.0, "AugmentedMPS()")
                    got = np.array(mps.gammas[0]).ravel()
                    want = np.array(oqupy.AugmentedMPS(
                        [o["up"], o["up"]]).gammas[0]).ravel()
                else:
                    arr = layout(o["x"], "c")
                    s2 = oqupy.System(0.1 * o["z"], gammas=[0.3],
                                      lindblad_operators=[arr])
                    overwrite(arr, 5.0, "System(lindblad_operators)")
                    got = s2.liouvillian()
                    want = oqupy.System(0.1 * o["z"], gammas=[0.3],
                                        lindblad_operators=[o["x"]]
                                        ).liouvillian()
                ok, err = _close(got, want, 1e-12)
                stats["computations"] += 1
                log.ev("mutate_after", which, ok)
                if not ok:
                    viol("object_follows_callers_array", which,
                         "a %s built from a caller array changed (by %.3g) "
                         "when the caller later overwrote that array" % (
                             which, err), holder=which)
            elif k == "shared":
                what, dti, steps = op[1], op[2], op[3]
                # a third, independent source of variation (start times,
                # orders, memory lengths): arguments that always changed
                # together with dt would hide a memo keyed by dt alone
                var = op[4] if len(op) > 4 else 0
                t0 = [0.0, 0.1, 0.3][var % 3]
                dt = [0.05, 0.1, 0.2][dti]
                tol = 1e-10

                def ham_t(t):
                    return 0.5 * np.cos(1.3 * t) * o["x"] + 0.2 * o["z"]

                def mk_shared(key, factory):
                    if key not in shared_objs:
                        shared_objs[key] = factory()
                    return shared_objs[key]
                if what == "td_system":
                    def mk():
                        return oqupy.TimeDependentSystem(
                            ham_t, gammas=[lambda t: 0.1 + 0.05 * t],
                            lindblad_operators=[lambda t: o["-"]])

                    def run(sy):
                        return oqupy.compute_dynamics(
                            sy, RHO0, dt=dt, num_steps=steps,
                            start_time=t0, subdiv_limit=None,
                            progress_type="silent").states
                    got, want = run(mk_shared("td", mk)), run(mk())
                elif what == "param_system_two_dt":
                    # one parameterized system in gradient computations with
                    # different time steps (a convergence check in dt) and a
                    # repeated row of parameters
                    need_bath()
                    b = baths[0]
                    tol = 1e-6

                    def hamp(x, y):
                        return 0.5 * x * o["x"] + 0.5 * y * o["z"]

                    def pt_for(d):
                        tp = oqupy.TempoParameters(dt=d, epsrel=EPSREL,
                                                   dkmax=2)
                        return oqupy.pt_tempo_compute(
                            fresh_bath(b), 0.0, 2.5 * d, tp,
                            progress_type="silent")
                    table = np.array([[1.0, 0.4], [1.0, 0.4], [0.8, 0.3],
                                      [1.0, 0.4]])

                    def run(sy, d):
                        res = oqupy.state_gradient(
                            system=sy, initial_state=np.array(RHO0),
                            target_derivative=np.array(RHO0.T * 0.7),
                            process_tensors=[pt_for(d)],
                            parameters=np.array(table),
                            progress_type="silent")
                        return np.concatenate([
                            np.array(res["gradient"]).ravel(),
                            np.array(res["final_state"]).ravel()])
                    psys2 = mk_shared("psys2", lambda:
                                      oqupy.ParameterizedSystem(hamp))
                    d_now = [0.05, 0.1, 0.2][dti]
                    d_other = [0.05, 0.1, 0.2][(dti + steps) % 3]
                    run(psys2, d_other)
                    got = run(psys2, d_now)
                    want = run(oqupy.ParameterizedSystem(hamp), d_now)
                elif what == "long_file_pt":
                    # a long process tensor imported from a file and used
                    # by several computations of different length, each
                    # starting again at its first step
                    need_bath()
                    cands = [x for x in baths if x["kind"] != "customcorr"] \
                        or [{"kind": "powerlaw", "coupling": "z", "vals": {
                            "alpha": 0.2, "zeta": 1.0, "cutoff": 3.0,
                            "cutoff_type": "exponential",
                            "temperature": 0.5}}]
                    b = cands[0]
                    tol = 1e-9
                    nlong = 40

                    def mk():
                        import tempfile
                        d = tempfile.mkdtemp(prefix="dsim-c20-")
                        _TMPDIRS.append(d)
                        tp = oqupy.TempoParameters(dt=0.1, epsrel=1e-8,
                                                   dkmax=2)
                        mem = oqupy.pt_tempo_compute(
                            fresh_bath(b), 0.0, (nlong + 0.5) * 0.1, tp,
                            progress_type="silent")
                        path = d + "/long.hdf5"
                        mem.export(path)
                        return (oqupy.import_process_tensor(path, "file"),
                                mem)

                    def run(pt, nsteps):
                        return oqupy.compute_dynamics(
                            oqupy.System(0.5 * o["x"] + 0.2 * o["z"]), RHO0,
                            process_tensor=pt, num_steps=nsteps,
                            progress_type="silent").states
                    fpt, mem = mk_shared(
                        "longfile:%r" % sorted(b["vals"].items()), mk)
                    n_first = [nlong, 35, 33][var % 3]
                    n_now = [3, 12, nlong, 31, 33, 17][(dti + 2 * steps) % 6]
                    run(fpt, n_first)
                    got, want = run(fpt, n_now), run(mem, n_now)
                elif what == "bath_dynamics":
                    # one TwoTimeBathCorrelations object answers a series of
                    # questions; it extends its table of system correlations
                    # as needed, and each answer must be the one a fresh
                    # object gives
                    need_bath()
                    # (bath dynamics need a spectral density and a
                    # temperature: not defined for CustomCorrelations)
                    cands = [x for x in baths if x["kind"] != "customcorr"] or \
                        [{"kind": "powerlaw", "coupling": "z", "vals": {
                            "alpha": 0.2, "zeta": 1.0, "cutoff": 3.0,
                            "cutoff_type": "exponential",
                            "temperature": 0.5}}]
                    b = cands[0]
                    tol = 1e-8
                    tp = oqupy.TempoParameters(dt=0.1, epsrel=EPSREL, dkmax=3)

                    def mk():
                        fb = fresh_bath(b)
                        pt = oqupy.pt_tempo_compute(
                            fb, 0.0, 0.65, tp, progress_type="silent")
                        return oqupy.bath_dynamics.TwoTimeBathCorrelations(
                            oqupy.System(0.5 * o["x"] + 0.3 * o["z"]), fb, pt,
                            initial_state=np.array(RHO0))
                    # few distinct frequencies and times, so that successive
                    # questions agree in some arguments and differ in others
                    questions = [("occ", 1.2, False), ("occ", 0.5, True),
                                 ("occ", 1.2, True)]
                    for f1, f2 in ((1.0, None), (1.0, 1.5), (1.5, 1.0)):
                        for t1, t2 in ((0.2, 0.6), (0.4, 0.6), (0.2, None),
                                       (0.6, None), (0.2, 0.4)):
                            for dg in ((1, 0), (0, 1), (1, 1)):
                                questions.append(("corr", f1, t1, f2, t2, dg))
                    nq = len(questions)
                    def ask(t, q):
                        if q[0] == "corr":
                            return np.array([t.correlation(
                                q[1], q[2], freq_2=q[3], time_2=q[4],
                                dagg=q[5], progress_type="silent")])
                        return np.array(t.occupation(
                            q[1], change_only=q[2],
                            progress_type="silent")[1])
                    ttbc = mk_shared("ttbc:%r" % sorted(b["vals"].items()),
                                     mk)
                    h = 7 * dti + 3 * steps + 11 * len(shared_objs) \
                        + 5 * stats["computations"]
                    ask(ttbc, questions[(h * 13 + 5) % nq])
                    ask(ttbc, questions[(h * 7 + 1) % nq])
                    q_now = questions[(h * 5 + 2) % nq]
                    got, want = ask(ttbc, q_now), ask(mk(), q_now)
                elif what == "td_interleaved":
                    # two computations built from one time-dependent system
                    # are alive at the same time and advance alternately
                    need_bath()
                    b = baths[0]
                    tol = TOL_T
                    dts = (dt, dt if var >= 3 else
                           [0.05, 0.1, 0.2][(dti + 1) % 3])

                    def mk():
                        return oqupy.TimeDependentSystem(
                            ham_t, gammas=[lambda t: 0.1 + 0.05 * t],
                            lindblad_operators=[lambda t: o["-"]])

                    def tempo_for(sy, d, t0):
                        tp = oqupy.TempoParameters(dt=d, epsrel=EPSREL,
                                                   dkmax=2,
                                                   subdiv_limit=None)
                        return oqupy.Tempo(sy, fresh_bath(b), tp, RHO0, t0)
                    shared = mk_shared("td_i", mk)
                    ta = tempo_for(shared, dts[0], 0.0)
                    tb = tempo_for(shared, dts[1], 0.3)
                    ta.compute(1.5 * dts[0], progress_type="silent")
                    tb.compute((steps + 0.5) * dts[1],
                               progress_type="silent")
                    ta.compute((steps + 1.5) * dts[0],
                               progress_type="silent")
                    got = np.concatenate([
                        np.array(ta.get_dynamics().states).ravel(),
                        np.array(tb.get_dynamics().states).ravel()])
                    fa = tempo_for(mk(), dts[0], 0.0)
                    fa.compute((steps + 1.5) * dts[0],
                               progress_type="silent")
                    fb = tempo_for(mk(), dts[1], 0.3)
                    fb.compute((steps + 0.5) * dts[1],
                               progress_type="silent")
                    want = np.concatenate([
                        np.array(fa.get_dynamics().states).ravel(),
                        np.array(fb.get_dynamics().states).ravel()])
                elif what == "control":
                    def mk():
                        c = oqupy.Control(2)
                        c.add_single(1, oqupy.operators.left_super(o["x"]))
                        c.add_single(0.2, oqupy.operators.left_super(o["z"]),
                                     post=True)
                        return c

                    def run(c):
                        return oqupy.compute_dynamics(
                            oqupy.System(0.4 * o["x"]), RHO0, dt=dt,
                            num_steps=steps + 1, control=c, start_time=t0,
                            progress_type="silent").states
                    got, want = run(mk_shared("ctl", mk)), run(mk())
                elif what == "bath_two_dt":
                    need_bath()
                    b = baths[0]
                    tol = TOL_T

                    def run(bath):
                        tp = oqupy.TempoParameters(
                            dt=dt, epsrel=EPSREL,
                            dkmax=[2, 3, None][(var // 3 + dti) % 3])
                        return oqupy.Tempo(
                            oqupy.System(0.5 * o["x"]), bath, tp, RHO0,
                            t0).compute(t0 + (steps + 0.5) * dt,
                                        progress_type="silent").states
                    got, want = run(b["obj"]), run(fresh_bath(b))
                elif what == "gibbs_pair":
                    def mkb():
                        return oqupy.Bath(0.5 * o["z"], oqupy.PowerLawSD(
                            0.2, 1.0, 3.0, temperature=0.7))
                    sysg = mk_shared("gsys", lambda: oqupy.System(
                        0.3 * o["z"] + 0.2 * o["x"]))
                    bathg = mk_shared("gbath", mkb)

                    def run(sy, bath):
                        g = oqupy.GibbsTempo(sy, bath, oqupy.GibbsParameters(
                            n_steps=2 + steps + dti, epsrel=1e-9))
                        g.compute(progress_type="silent")
                        return g.get_state()
                    got = run(sysg, bathg)
                    want = run(oqupy.System(0.3 * o["z"] + 0.2 * o["x"]),
                               mkb())
                elif what == "pt_in_tebd":
                    need_pt()
                    p0 = pts[0]
                    b = baths[p0["bath"]]
                    tol = TOL_T

                    def run(pt):
                        chain = oqupy.SystemChain([2, 2])
                        chain.add_site_hamiltonian(0, 0.3 * o["x"])
                        chain.add_nn_hamiltonian(0, 0.4 * o["z"], o["z"])
                        t = oqupy.PtTebd(
                            oqupy.AugmentedMPS([RHO0, RHO0.T]), chain,
                            [pt, None], oqupy.PtTebdParameters(
                                dt=0.1, order=1 + var % 2, epsrel=1e-10),
                            dynamics_sites=[0, 1])
                        r = t.compute(min(steps, p0["steps"]),
                                      progress_type="silent")
                        return np.concatenate(
                            [r["dynamics"][0].states.ravel(),
                             r["dynamics"][1].states.ravel()])
                    got = run(p0["obj"])
                    want = run(oqupy.pt_tempo_compute(
                        fresh_bath(b), 0.0, (p0["steps"] + 0.5) * 0.1,
                        pars(p0["steps"]), progress_type="silent"))
                elif what == "chain_control":
                    # one ChainControl (with stacked controls) for several
                    # chain computations
                    def mk():
                        from oqupy.operators import left_super, right_super
                        cc = oqupy.ChainControl([2, 2])
                        cc.add_single_site_control(left_super(o["x"]), 0, 1)
                        cc.add_single_site_control(
                            right_super(o["z"]) * 0.9, 0, 1)
                        cc.add_single_site_control(
                            left_super(o["y"]), 1, 1, post=True)
                        cc.add_single_site_control(
                            left_super(o["z"]) * 1.1, 1, 1, post=True)
                        return cc

                    def run(cc):
                        chain = oqupy.SystemChain([2, 2])
                        chain.add_site_hamiltonian(0, 0.3 * o["x"])
                        chain.add_nn_hamiltonian(0, 0.4 * o["z"], o["z"])
                        t = oqupy.PtTebd(
                            oqupy.AugmentedMPS([RHO0, RHO0.T]), chain,
                            [None, None], oqupy.PtTebdParameters(
                                dt=dt, order=1 + var % 2, epsrel=1e-10),
                            chain_control=cc, dynamics_sites=[0, 1])
                        r = t.compute(steps + 1, progress_type="silent")
                        return np.concatenate(
                            [r["dynamics"][0].states.ravel(),
                             r["dynamics"][1].states.ravel()])
                    got, want = run(mk_shared("cc", mk)), run(mk())
                elif what == "param_table":
                    # the caller keeps one parameter table and updates it in
                    # place between gradient computations
                    need_pt()
                    p0 = pts[0]
                    n = p0["steps"]

                    def hamp(x, y):
                        return 0.5 * x * o["x"] + 0.5 * y * o["z"]
                    psys = mk_shared("psys", lambda:
                                     oqupy.ParameterizedSystem(hamp))
                    key = "ptable%d" % n
                    if key not in shared_objs:
                        shared_objs[key] = np.array(
                            [[1.0 + 0.1 * i, 0.4 - 0.05 * i]
                             for i in range(2 * n)])
                    table = shared_objs[key]
                    # the caller's update of its own table
                    overwrite(table, table * (1.0 + 0.1 * (dti + 1)),
                              "state_gradient(parameters)")
                    table[::2, 1] += 0.05 * steps
                    tol = 1e-7

                    def run(sy, tab):
                        res = oqupy.state_gradient(
                            system=sy, initial_state=np.array(RHO0),
                            target_derivative=np.array(RHO0.T * 0.7),
                            process_tensors=[p0["obj"]], parameters=tab,
                            progress_type="silent")
                        return np.concatenate([
                            np.array(res["gradient"]).ravel(),
                            np.array(res["final_state"]).ravel()])
                    before = table.tobytes()
                    got = run(psys, table)
                    if table.tobytes() != before:
                        viol("caller_array_modified",
                             "state_gradient/parameters",
                             "the caller's parameter table changed during "
                             "state_gradient", call="state_gradient",
                             array="parameters")
                    want = run(oqupy.ParameterizedSystem(hamp),
                               np.array(table))
                elif what == "open_params":
                    # TempoParameters without a memory cut-off, shared by
                    # computations of different length
                    need_bath()
                    b = baths[0]
                    tol = TOL_T

                    def mk():
                        return oqupy.TempoParameters(dt=0.1, epsrel=EPSREL)
                    og = ObjGuard(viol)

                    def run(tp):
                        og.add("parameters", tp)
                        short = oqupy.pt_tempo_compute(
                            fresh_bath(b), 0.0, 2.5 * 0.1, tp,
                            progress_type="silent")
                        long_ = oqupy.pt_tempo_compute(
                            fresh_bath(b), 0.0, (steps + 3.5) * 0.1, tp,
                            progress_type="silent")
                        t = oqupy.Tempo(oqupy.System(0.5 * o["x"]),
                                        fresh_bath(b), tp, RHO0, 0.0)
                        st = t.compute((steps + 3.5) * 0.1,
                                       progress_type="silent").states
                        d2 = oqupy.compute_dynamics(
                            oqupy.System(0.5 * o["x"]), RHO0,
                            process_tensor=long_,
                            progress_type="silent").states
                        del short
                        return np.concatenate([st.ravel(), d2.ravel()])
                    shared_tp = mk_shared("tp_open", mk)
                    got = run(shared_tp)
                    og.check("PT-TEMPO/TEMPO")
                    # the reference uses a fresh parameters object per call
                    fb = fresh_bath(b)
                    long_ = oqupy.pt_tempo_compute(
                        fb, 0.0, (steps + 3.5) * 0.1, mk(),
                        progress_type="silent")
                    st = oqupy.Tempo(oqupy.System(0.5 * o["x"]),
                                     fresh_bath(b), mk(), RHO0, 0.0).compute(
                                         (steps + 3.5) * 0.1,
                                         progress_type="silent").states
                    d2 = oqupy.compute_dynamics(
                        oqupy.System(0.5 * o["x"]), RHO0,
                        process_tensor=long_, progress_type="silent").states
                    want = np.concatenate([st.ravel(), d2.ravel()])
                elif what == "guess_parameters":
                    # the parameter-estimation front end takes a system and a
                    # bath and must leave both as they were
                    need_bath()
                    b = baths[0]

                    def mk():
                        return oqupy.System(
                            0.5 * o["x"] + 0.1 * o["z"], gammas=[0.3, 0.7],
                            lindblad_operators=[np.array(o["-"]),
                                                np.array(o["z"])])
                    sysg = mk_shared("gsys2", mk)
                    og = ObjGuard(viol)
                    og.add("system", sysg)
                    og.add("bath", b["obj"])
                    with warnings.catch_warnings():
                        warnings.simplefilter("ignore")
                        p1 = oqupy.guess_tempo_parameters(
                            b["obj"], 0.0, 0.5 + 0.1 * steps, system=sysg,
                            tolerance=0.05)
                        p2 = oqupy.guess_tempo_parameters(
                            fresh_bath(b), 0.0, 0.5 + 0.1 * steps,
                            system=mk(), tolerance=0.05)
                    og.check("guess_tempo_parameters")
                    got = np.concatenate([
                        np.array([p1.dt, p1.epsrel, float(p1.dkmax or 0)]),
                        np.array(sysg.liouvillian()).ravel()])
                    want = np.concatenate([
                        np.array([p2.dt, p2.epsrel, float(p2.dkmax or 0)]),
                        np.array(mk().liouvillian()).ravel()])
                else:  # one TempoParameters object for several computations
                    need_bath()
                    b = baths[0]
                    tol = TOL_T

                    def mk():
                        return oqupy.TempoParameters(dt=0.1, epsrel=EPSREL,
                                                     dkmax=2)

                    def run(tp):
                        pt = oqupy.pt_tempo_compute(
                            fresh_bath(b), 0.0, (steps + 1.5) * 0.1, tp,
                            progress_type="silent")
                        t = oqupy.Tempo(oqupy.System(0.5 * o["x"]),
                                        fresh_bath(b), tp, RHO0, 0.0)
                        st = t.compute((steps + 0.5) * 0.1,
                                       progress_type="silent").states
                        d2 = oqupy.compute_dynamics(
                            oqupy.System(0.5 * o["x"]), RHO0,
                            process_tensor=pt, progress_type="silent").states
                        return np.concatenate([st.ravel(), d2.ravel()])
                    got, want = run(mk_shared("tp", mk)), run(mk())
                stats["computations"] += 1
                ok, err = _close(got, want, tol)
                log.ev("shared", what, dti, steps, ok)
                if not ok:
                    viol("reuse_changes_result", "shared/%s" % what,
                         "a shared %s object used again (dt=%g, %d steps) "
                         "gives results differing by %.3g from fresh equal "
                         "objects" % (what, dt, steps, err), holder=what)
            elif k == "system_use":
                # shared System objects re-used with different arguments
                si, lay, dti, steps, api = op[1], op[2], op[3], op[4], op[5]
                dt = [0.05, 0.1, 0.2][dti]
                # systems 0 and 2 share the Hamiltonian and differ only in
                # their dissipators (anything keyed by H alone would collide)
                hams = [0.4 * o["x"] + 0.3 * o["z"],
                        0.7 * o["y"] - 0.2 * o["z"],
                        0.4 * o["x"] + 0.3 * o["z"]]
                lops = [[o["-"]], [], [o["-"], o["z"]]]
                gams = [[0.2], [], [0.1, 0.05]]

                def fresh_system():
                    return oqupy.System(np.array(hams[si]),
                                        gammas=list(gams[si]),
                                        lindblad_operators=[
                                            np.array(x) for x in lops[si]])
                if si not in shared_systems:
                    g = Guard(viol, "System")
                    ham = g.add("hamiltonian", layout(hams[si], lay))
                    lo = [g.add("lindblad%d" % j, layout(x, lay))
                          for j, x in enumerate(lops[si])]
                    shared_systems[si] = oqupy.System(
                        ham, gammas=list(gams[si]), lindblad_operators=lo)
                    g.check()
                    stats["arrays_guarded"] += 1 + len(lo)
                sysm = shared_systems[si]
                handed = sysm.hamiltonian
                try:
                    handed[...] = 3.0       # getter result overwritten
                except (ValueError, TypeError):
                    pass

                def consume_system(sy):
                    if api == "dynamics":
                        return oqupy.compute_dynamics(
                            sy, RHO0, dt=dt, num_steps=steps,
                            start_time=[0.3, 0.0, 0.7][(steps + dti) % 3],
                            progress_type="silent").states
                    if api == "propagators":
                        a1, a2 = sy.get_propagators(
                            dt, [0.0, 0.4][steps % 2], None, 1e-8)(1)
                        return np.concatenate([a1.ravel(), a2.ravel()])
                    if api == "dynamics_pt":
                        need_pt()
                        return oqupy.compute_dynamics(
                            sy, RHO0, process_tensor=pts[0]["obj"],
                            progress_type="silent").states
                    need_bath()
                    tp = oqupy.TempoParameters(dt=dt, epsrel=EPSREL, dkmax=2)
                    return oqupy.Tempo(
                        sy, fresh_bath(baths[0]), tp, RHO0, 0.0).compute(
                            (steps + 0.5) * dt, progress_type="silent").states
                got = consume_system(sysm)
                want = consume_system(fresh_system())
                stats["computations"] += 1
                ok, err = _close(got, want, TOL_T
                                 if api == "tempo" else 1e-10)
                log.ev("system_use", si, dti, steps, api, ok)
                if not ok:
                    viol("reuse_changes_result", "System/%s" % api,
                         "a System object used before (with other arguments) "
                         "gives results differing by %.3g from a freshly "
                         "built equal System in %s with dt=%g" % (
                             err, api, dt), holder="System", call=api)
        except InjectedFault:
            raise
        except _Frozen:
            log.ev("frozen", k)
            continue
    # a few of the in-process references again, from a process that has not
    # run this history: earlier computations must not have influenced them
    picks = spot[-3:] if len(spot) > 3 else spot
    for name, args, want, tol in picks:
        status, val = pristine.call(name, args)
        stats["pristine_rechecks"] = stats.get("pristine_rechecks", 0) + 1
        if status != "ok":
            continue
        ok, err = _close(np.asarray(want), val, tol)
        if not ok:
            viol("computation_influenced_by_earlier_ones",
                 "pristine/%s" % name,
                 "%s computed on fresh objects at the end of this history "
                 "differs by %.3g from the same computation in a process "
                 "that has not run the history" % (name, err), call=name)
    # the operator constants the library hands out must still be what they
    # were (a computation scribbling on a shared module-level array would
    # poison the fresh-object replays as well)
    import oqupy.operators as opr
    consts = {"x": [[0, 1], [1, 0]], "y": [[0, -1j], [1j, 0]],
              "z": [[1, 0], [0, -1]], "id": [[1, 0], [0, 1]],
              "+": [[0, 1], [0, 0]], "-": [[0, 0], [1, 0]]}
    for nm, val in consts.items():
        if not np.array_equal(np.array(opr.sigma(nm)), np.array(val)):
            viol("library_constant_modified", "operators.sigma/" + nm,
                 "oqupy.operators.sigma(%r) no longer returns the Pauli "
                 "matrix after this history" % nm, holder="operators")
    for nm, val in {"up": [[1, 0], [0, 0]], "down": [[0, 0], [0, 1]],
                    "x+": [[0.5, 0.5], [0.5, 0.5]]}.items():
        if not np.allclose(np.array(opr.spin_dm(nm)), np.array(val),
                           atol=1e-15):
            viol("library_constant_modified", "operators.spin_dm/" + nm,
                 "oqupy.operators.spin_dm(%r) changed" % nm,
                 holder="operators")
    return {
        "violations": violations[:3], "notes": [], "digest": log.digest(),
        "events": len(log), "sim_ms": 0, "outcomes": ["done"],
        "probes": dict(stats), "faults_fired": {},
        "nontrivial": stats["evals"] + stats["bath_evals"]
        + stats["computations"] >= 2,
        "key": "e%d/b%d/c%d" % (stats["evals"], stats["bath_evals"],
                                stats["computations"]),
        "margin": MARGIN[0],
        "stats": stats,
    }


RULE = ("each run = one seeded usage history (construct correlations / "
        "baths / systems / process tensors from caller arrays in C, F, "
        "strided and read-only layouts; change public attributes; evaluate "
        "methods; run Tempo, PT-TEMPO, compute_dynamics, gradient, PT-TEBD; "
        "overwrite caller arrays and getter results; fail a callable) checked "
        "against fresh-object replays from the model's plain values and "
        "bytewise caller-array fingerprints; non-trivial = at least two "
        "checked evaluations; distinct = distinct event-log digests")
COMPONENTS = {"real": ["all oqupy objects involved", "numpy/scipy"],
              "stub": ["none: the call history is what is simulated"]}
ASSUMPTIONS = [
    "the explored alphabet is limited to the surfaces C20 anchors "
    "(correlations memo and closures, Bath copy, array conversion sites, "
    "in-place reshapes, AugmentedMPS); holding a reference to a mutable "
    "parameters or control object is not probed",
    "same algorithm on equal values: tolerance 1e-9 relative for method "
    "evaluations, 1e-6 for computations that involve a TEMPO/PT-TEMPO run "
    "truncated at epsrel 1e-10",
]


def summarize(results):
    tot = {}
    for r in results:
        for a, b in (r.get("stats") or {}).items():
            tot[a] = tot.get(a, 0) + b
    return {"operations": tot,
            "largest_passing_deviation_over_tolerance": max(
                [r.get("margin", 0.0) for r in results] or [0.0])}
