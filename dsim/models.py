"""Small physical models built from plain (JSON-able) data, and
fault-injecting wrappers for user callables.

All builders import OQuPy lazily so that the import happens after the harness
has prepared the environment.
"""
import copy as _copy

import numpy as np

from .core import InjectedFault


def ops():
    import oqupy
    o = oqupy.operators
    return {"x": o.sigma("x"), "y": o.sigma("y"), "z": o.sigma("z"),
            "id": o.sigma("id"), "up": o.spin_dm("up"),
            "down": o.spin_dm("down"), "plus": o.spin_dm("x+"),
            "mixed": o.spin_dm("mixed"), "+": o.sigma("+"),
            "-": o.sigma("-")}


class InjectedValueError(InjectedFault, ValueError):
    """A failing callable may raise any exception type."""


class InjectedInterrupt(KeyboardInterrupt):
    """... including one that is not an Exception (Ctrl-C inside a callable)."""


EXC_FLAVOURS = {"exception": InjectedFault, "value_error": InjectedValueError,
                "interrupt": InjectedInterrupt}
INJECTED = (InjectedFault, InjectedInterrupt)


class FaultPlan:
    """Which wrapped callable raises, and when.

    armed[name] = {"mode": "call", "n": k}   -> raise at the k-th call (1-based)
                  {"mode": "step", "k": k}   -> raise at the first evaluation
                                                whose step index is >= k
    Every armed fault is transient: it fires once and disarms itself.
    """

    def __init__(self):
        self.armed = {}
        self.calls = {}
        self.fired = []
        self.exc_class = InjectedFault

    def arm(self, name, spec):
        self.armed[name] = dict(spec)

    def check(self, name, step):
        self.calls[name] = self.calls.get(name, 0) + 1
        spec = self.armed.get(name)
        if spec is None:
            return
        hit = False
        if spec["mode"] == "call":
            hit = self.calls[name] - spec.get("base", 0) >= spec["n"]
        elif spec["mode"] == "step":
            hit = step is not None and step >= spec["k"]
        if hit:
            del self.armed[name]
            self.fired.append((name, self.calls[name], step))
            raise self.exc_class("injected fault in %s" % name)


def faulty(name, fn, plan, step_of=None, sim=None):
    """Wrap fn so that it is a yield point and may raise per ``plan``.

    The wrapper is a plain function with fn's positional signature preserved
    through *args (np.vectorize and direct calls both work).
    """
    def wrapper(*args):
        if sim is not None:
            sim.yield_point("user:" + name)
        step = step_of(*args) if step_of is not None else None
        plan.check(name, step)
        return fn(*args)
    wrapper.__name__ = "faulty_" + name
    return wrapper


def step_of_time(start_time, dt):
    def step_of(t, *rest):
        return int(np.floor((float(np.real(t)) - start_time) / dt + 1e-9))
    return step_of


# ---------------------------------------------------------------------------
# process tensors

def make_bath(coupling="z", alpha=0.1, zeta=1.0, cutoff=3.0, temperature=0.0,
              cutoff_type="exponential", scale=0.5):
    import oqupy
    o = ops()
    corr = oqupy.PowerLawSD(alpha=alpha, zeta=zeta, cutoff=cutoff,
                            cutoff_type=cutoff_type, temperature=temperature)
    return oqupy.Bath(scale * o[coupling], corr)


def make_pt(coupling="z", steps=6, dt=0.1, dkmax=3, epsrel=1e-5, alpha=0.1,
            temperature=0.0, name=None):
    import oqupy
    bath = make_bath(coupling=coupling, alpha=alpha, temperature=temperature)
    pars = oqupy.TempoParameters(dt=dt, epsrel=epsrel, dkmax=dkmax)
    return oqupy.pt_tempo_compute(bath, 0.0, (steps + 0.5) * dt, pars,
                                  progress_type="silent", name=name)


def clone_simple_pt(pt):
    """Independent SimpleProcessTensor with the same content."""
    import oqupy
    new = oqupy.process_tensor.SimpleProcessTensor(
        hilbert_space_dimension=pt.hilbert_space_dimension, dt=pt.dt,
        transform_in=_copy.deepcopy(pt.transform_in),
        transform_out=_copy.deepcopy(pt.transform_out),
        name=pt.name, description=pt.description)
    for k in range(len(pt)):
        new.set_mpo_tensor(k, np.array(pt.get_mpo_tensor(k, transformed=False)))
    for k in range(len(pt) + 1):
        cap = pt.get_cap_tensor(k)
        if cap is not None:
            new.set_cap_tensor(k, np.array(cap))
    return new


def break_pt(pt, kind, k):
    """Return a damaged copy: missing cap / mismatching MPO shape at step k."""
    new = clone_simple_pt(pt)
    if kind == "cap":
        new._cap_tensors[k] = None
    elif kind == "shape":
        t = new._mpo_tensors[k]
        bad = np.zeros((t.shape[0] + 1,) + t.shape[1:], dtype=t.dtype)
        new._mpo_tensors[k] = bad
    else:
        raise ValueError(kind)
    return new


class RaisingProcessTensor:
    """Mixin-free wrapper: a BaseProcessTensor that raises at step k."""


def make_raising_pt(pt, k, plan, name="pt_get_mpo"):
    import oqupy
    base = oqupy.process_tensor.SimpleProcessTensor

    class _Raising(base):
        def get_mpo_tensor(self, step, transformed=True):
            plan.check(name, step)
            return super().get_mpo_tensor(step, transformed)

    new = clone_simple_pt(pt)
    new.__class__ = _Raising
    plan.arm(name, {"mode": "step", "k": k})
    return new
