"""Baton scheduler, virtual clock and simulated threading primitives.

Real Python threads run real OQuPy code, but exactly one of them holds the
baton at any time; *who* runs next, and how much virtual time passes, is always
a recorded decision (``Decider.choose``).  Pre-emption points are LINE events
(``sys.monitoring``, PEP 669) on selected code objects, calls of
fault-injecting user callables, writes to the recorded output stream and
contended simulated locks.
"""
import io
import sys
import threading
import types

from .core import EventLog, HarnessError

_real_thread = threading.Thread
_real_semaphore = threading.Semaphore

# virtual-time increments a yield point may draw (index 0 = boring)
JUMPS_MS = [0, 10, 300, 700, 1100, 2500]

MAIN = "main"


class _Waiter:
    """Something a baton thread waits for (same protocol as SimLock)."""

    def __init__(self, pred):
        self.pred = pred

    def _free_for(self, me):
        return self.pred()


class Deadlock(Exception):
    """Raised inside simulated code when every baton thread is blocked."""


class Sim:
    """One simulated execution: clock, timers, baton threads, event log."""

    def __init__(self, decider, p_switch=0.3, p_clock=0.3, jump_weights=None,
                 max_events=400000):
        self.dec = decider
        self.p_switch = p_switch
        self.p_clock = p_clock
        self.jump_weights = jump_weights or [0, 3, 2, 2, 4, 1]
        self.log = EventLog(cap=max_events)
        self.now_ms = 0
        self.timer_seq = 0
        self.timers = []          # started, not cancelled, not fired
        self.all_timers = []
        self.gates = {MAIN: _real_semaphore(0)}
        self.runnable = [MAIN]
        self.current = MAIN
        self.threads = {}         # name -> real Thread
        self.blocked = {}         # name -> lock it waits for
        self.active = False
        self.api_ended = False
        self.main_parked = False
        self.pos = {}             # thread name -> "func:line" last seen
        self.func = {}            # thread name -> co_name last seen
        self.switches = set()     # (from_pos, to_name_kind, to_pos)
        self.pairs = set()        # (callback pos, caller pos) at switches
        self.probes = {}
        self.cb_phase = {}        # cb name -> 'idle'|'cancelled' (cancel..start)
        self.writes_after_end = 0
        self.writes_total = 0
        self.cb_exceptions = []
        self.lock_waits = 0
        self.deadlock = False
        self.main_starts = 0
        self.pools = []
        self.stalled = set()      # baton threads held back while others run
        self.script = None        # DirectedSchedule instead of random choices
        self.deadlines = {}       # sleeping baton thread -> wake-up time (ms)

    # -- bookkeeping -------------------------------------------------------
    def ev(self, *a):
        try:
            self.log.ev(*a)
        except HarnessError:
            if threading.current_thread() is threading.main_thread():
                raise
            # a baton thread cannot unwind the run: end the child at once
            # (the parent reports "child died without result": a harness
            # error, never a verdict) instead of hanging until the wall cap
            import os
            import sys
            sys.stderr.write("dsim: event cap exceeded in a baton thread\n")
            sys.stderr.flush()
            os._exit(3)

    def probe(self, name, n=1):
        self.probes[name] = self.probes.get(name, 0) + n

    def clock(self):
        """The only clock simulated code sees (virtual seconds)."""
        return self.now_ms / 1000.0

    def me(self):
        return self.current

    def holder_is_caller(self):
        return threading.current_thread().name == self.current or (
            self.current == MAIN
            and threading.current_thread() is threading.main_thread())

    # -- timers ------------------------------------------------------------
    def fire_due(self):
        due = sorted([t for t in self.timers if t.due_ms <= self.now_ms],
                     key=lambda t: (t.due_ms, t.id))
        for t in due:
            self.timers.remove(t)
            t._spawn()

    def advance(self, ms):
        if ms:
            self.now_ms += ms
            self.ev("clock", self.now_ms)
            self.fire_due()

    # -- the heart: yield points ------------------------------------------
    def yield_point(self, where, clock_ok=True):
        """Maybe advance the clock, maybe hand the baton to another thread."""
        if not self.active or not self.holder_is_caller():
            return
        me = self.current
        self.pos[me] = where
        if self.script is not None:
            self.script.step(self, me, where, clock_ok)
            return
        if clock_ok and (self.timers or self.deadlines) \
                and not self.main_parked:
            pc = self.p_clock if me == MAIN else self.p_clock / 4.0
            if self.dec.flip("clock?", pc):
                j = self.dec.choose("jump", len(JUMPS_MS), self.jump_weights)
                self.advance(JUMPS_MS[j])
        self._maybe_switch(where)

    def _candidates(self, me):
        c = [r for r in self.runnable
             if r != me
             and (r not in self.blocked or self.blocked[r]._free_for(r))
             and not (r == MAIN and self.main_parked)]
        live = [r for r in c if r not in self.stalled]
        return sorted(live) if live else sorted(c)

    def _maybe_switch(self, where):
        me = self.current
        others = self._candidates(me)
        if not others:
            return
        if not self.dec.flip("switch?", self.p_switch):
            return
        k = self.dec.choose("next", len(others))
        self._switch_to(others[k], where)

    def _switch_to(self, nxt, where):
        me = self.current
        self.ev("switch", me, where, nxt)
        kind = lambda n: "caller" if n == MAIN else "callback"
        self.switches.add((kind(me), where, kind(nxt),
                           self.pos.get(nxt, "start")))
        cbpos = where if me != MAIN else self.pos.get(nxt, "start")
        mainpos = where if me == MAIN else self.pos.get(MAIN, "?")
        self.pairs.add((cbpos, mainpos))
        self.current = nxt
        self.gates[nxt].release()
        self.gates[me].acquire()

    def block_on(self, lock, where):
        """Current thread cannot proceed until ``lock`` is free."""
        me = self.current
        self.lock_waits += 1
        self.probe("lock_contended")
        while not lock._free_for(me):
            self.blocked[me] = lock
            others = self._candidates(me)
            if not others:
                # nobody can run: try to let time pass (a timer may fire)
                if self.timers and not self.main_parked:
                    nxt_due = min(t.due_ms for t in self.timers)
                    self.advance(max(0, nxt_due - self.now_ms))
                    others = self._candidates(me)
                if not others:
                    self.deadlock = True
                    self.ev("deadlock", me, where)
                    del self.blocked[me]
                    raise Deadlock("simulated deadlock at %s" % where)
            k = self.dec.choose("next", len(others))
            self._switch_to(others[k], where)
            self.blocked.pop(me, None)

    def next_event_ms(self):
        """Earliest pending timer or sleeper deadline (None if there is none)."""
        cand = [t.due_ms for t in self.timers] + [
            d for d in self.deadlines.values() if d is not None]
        return min(cand) if cand else None

    def wait_until(self, pred, timeout_s, where):
        """Block the current baton thread until pred() holds or the timeout
        (virtual seconds) passes.  Returns pred()."""
        me = self.current
        deadline = None if timeout_s is None else \
            self.now_ms + max(0, int(round(timeout_s * 1000)))
        waiter = _Waiter(lambda: pred() or (
            deadline is not None and self.now_ms >= deadline))
        guard = 0
        while not waiter.pred():
            guard += 1
            if guard > 100000:
                raise HarnessError("wait does not terminate at %s" % where)
            self.blocked[me] = waiter
            self.deadlines[me] = deadline
            others = self._candidates(me)
            if not others:
                nxt = self.next_event_ms()
                if nxt is None or (self.main_parked and me != MAIN
                                   and deadline is None):
                    self.blocked.pop(me, None)
                    self.deadlines.pop(me, None)
                    self.deadlock = True
                    self.ev("deadlock", me, where)
                    raise Deadlock("nothing can wake %s at %s" % (me, where))
                if self.main_parked:
                    # after the call: time only passes when the oracle says
                    # so; hand the baton back to the parked caller
                    self.ev("sleep", me)
                    self.current = MAIN
                    self.gates[MAIN].release()
                    self.gates[me].acquire()
                    continue
                self.advance(max(0, nxt - self.now_ms))
                continue
            k = self.dec.choose("next", len(others))
            self._switch_to(others[k], where)
        self.blocked.pop(me, None)
        self.deadlines.pop(me, None)
        return pred()

    def thread_finished(self, me):
        """A callback/baton thread ends: hand the baton on."""
        self.runnable.remove(me)
        others = self._candidates(me)
        if not others:
            if self.main_parked:
                nxt = MAIN
            else:
                # everybody else is blocked on a lock held by nobody runnable
                nxt = MAIN
        else:
            k = self.dec.choose("next", len(others))
            nxt = others[k]
        self.ev("done", me, nxt)
        self.current = nxt
        self.gates[nxt].release()

    def spawn(self, name, fn):
        """Create a runnable baton thread executing fn()."""
        self.gates[name] = _real_semaphore(0)
        self.runnable.append(name)
        self.cb_phase[name] = "idle"

        def body():
            self.gates[name].acquire()
            try:
                fn()
            except Deadlock:
                pass
            except BaseException as e:  # noqa: BLE001 - recorded, not hidden
                self.cb_exceptions.append((name, type(e).__name__, str(e)[:200]))
                self.ev("cb-exception", name, type(e).__name__)
            finally:
                self.thread_finished(name)

        th = _real_thread(target=body, name=name, daemon=True)
        self.threads[name] = th
        th.start()

    # -- after the API call -------------------------------------------------
    def drain(self):
        """Main parks; every other runnable thread runs to completion."""
        self.main_parked = True
        guard = 0
        while True:
            others = self._candidates(MAIN)
            if not others:
                break
            guard += 1
            if guard > 10000:
                raise HarnessError("drain does not terminate")
            k = self.dec.choose("next", len(others))
            nxt = others[k]
            self.ev("drain", nxt)
            self.current = nxt
            self.gates[nxt].release()
            self.gates[MAIN].acquire()
        self.main_parked = False
        self.current = MAIN
        # threads blocked for ever on a lock nobody will release
        stuck = [r for r in self.runnable if r != MAIN]
        return stuck

    def run_horizon(self, horizon_ms):
        """Jump from timer to timer for horizon_ms of virtual time."""
        end = self.now_ms + horizon_ms
        fired = 0
        while self.timers or any(d is not None
                                 for d in self.deadlines.values()):
            nxt = self.next_event_ms()
            if nxt is None or nxt > end:
                break
            self.now_ms = max(self.now_ms, nxt)
            self.ev("clock", self.now_ms)
            self.fire_due()
            fired += 1
            self.drain()
            if fired > 50:
                break
        self.now_ms = max(self.now_ms, end)
        return fired


class DirectedSchedule:
    """One pre-emption of the timer callback, placed exactly.

    The caller runs until its i-th yield point inside a progress method; there
    one timer period passes, the timer fires and the callback runs until its
    j-th yield point; then the caller runs to the end of the API call (and, in
    variant "update", only until it has left the progress method it is in and
    entered the next one); finally the callback resumes.  (i, j) enumerate the
    caller position x callback pre-emption point grid of the property text.
    """

    def __init__(self, i, j, variant="end"):
        self.i, self.j, self.variant = i, j, variant
        self.state = 0
        self.main_count = 0
        self.cb_count = 0
        self.cb = None
        self.reached = [False, False]
        self.resume_after = None

    def step(self, sim, me, where, clock_ok):
        if self.state == 0 and me == MAIN and clock_ok:
            if self.main_count == self.i and sim.timers:
                self.reached[0] = True
                due = min(t.due_ms for t in sim.timers)
                sim.advance(max(0, due - sim.now_ms) + 1)
                others = sim._candidates(me)
                if others:
                    self.cb = others[0]
                    self.state = 1
                    sim._switch_to(self.cb, where)
                    return
            self.main_count += 1
        elif self.state == 1 and me == self.cb:
            if self.cb_count == self.j:
                self.reached[1] = True
                self.state = 2
                if self.variant == "update":
                    self.resume_after = sim.func.get(MAIN)
                sim._switch_to(MAIN, where)
                return
            self.cb_count += 1
        elif self.state == 2 and me == MAIN and self.variant == "update" \
                and clock_ok:
            # let the callback continue once the caller has moved on to
            # another progress method
            fn = where.split(":")[0]
            if self.resume_after is not None and fn not in (
                    self.resume_after, "_print_status"):
                self.state = 3
                if self.cb in sim.runnable:
                    sim._switch_to(self.cb, where)


SIM = None  # the active simulation of this process (one per forked child)


def install(sim):
    global SIM
    SIM = sim


class SimTimer:
    """Mirror of threading.Timer on the virtual clock."""

    def __init__(self, interval, function, args=None, kwargs=None):
        sim = SIM
        sim.timer_seq += 1
        self.id = sim.timer_seq
        self.interval = interval
        self.function = function
        self.args = args if args is not None else []
        self.kwargs = kwargs if kwargs is not None else {}
        self.cancelled = False
        self.started = False
        self.fired = False
        self.finished_run = False
        self.daemon = False
        self.name = "SimTimer-%d" % self.id
        self.due_ms = None
        self.creator = sim.current
        sim.all_timers.append(self)
        sim.ev("timer-new", self.id, sim.current)

    def start(self):
        sim = SIM
        if self.started:
            sim.ev("double-start", self.id, sim.current)
            sim.probe("double_start")
            raise RuntimeError("threads can only be started once")
        self.started = True
        me = sim.current
        if me == MAIN:
            sim.main_starts += 1
        else:
            sim.cb_phase[me] = "idle"
        if self.cancelled:
            # threading.Timer.run: finished is set -> function not called
            sim.ev("start-cancelled", self.id, me)
            sim.probe("start_of_cancelled_timer")
            self.finished_run = True
            return
        self.due_ms = sim.now_ms + int(round(self.interval * 1000))
        sim.timers.append(self)
        sim.ev("arm", self.id, me, self.due_ms)
        if sim.api_ended:
            sim.probe("armed_after_api_end")

    def cancel(self):
        sim = SIM
        me = sim.current
        self.cancelled = True
        if me != MAIN:
            sim.cb_phase[me] = "cancelled"
        else:
            # probes: what are callbacks doing while the caller cancels?
            mid = [n for n, ph in sim.cb_phase.items()
                   if ph == "cancelled" and n in sim.runnable]
            if mid:
                if sim.func.get(MAIN) in ("exit", "__exit__"):
                    sim.probe("W1_exit_while_cb_between_cancel_and_rearm")
                else:
                    sim.probe("W2_update_while_cb_between_cancel_and_rearm")
            if not self.started:
                sim.probe("cancel_before_start")
        if self in sim.timers:
            sim.timers.remove(self)
            sim.ev("cancel", self.id, me)
        else:
            sim.ev("cancel-noop", self.id, me)

    def _spawn(self):
        sim = SIM
        self.fired = True
        name = "cb%d" % self.id
        sim.ev("fire", self.id)
        sim.probe("timer_fired")
        if sim.func.get(MAIN) == "update":
            sim.probe("timer_fired_while_caller_in_update")
        if sim.api_ended:
            sim.probe("timer_fired_after_api_end")

        def run():
            try:
                self.function(*self.args, **self.kwargs)
            finally:
                self.finished_run = True
        sim.spawn(name, run)

    def is_alive(self):
        return self.started and not self.finished_run and (
            self in SIM.timers or self.fired)

    def join(self, timeout=None):
        sim = SIM
        if not self.started:
            raise RuntimeError("cannot join thread before it is started")
        guard = 0
        while self.is_alive():
            guard += 1
            if guard > 1000:
                raise HarnessError("join does not terminate")
            me = sim.current
            others = sim._candidates(me)
            if others:
                k = sim.dec.choose("next", len(others))
                sim._switch_to(others[k], "join")
            elif self in sim.timers:
                sim.advance(max(0, self.due_ms - sim.now_ms))
            else:
                # the callback is running but cannot proceed (it waits for a
                # lock the joining thread holds): nobody can ever run again
                sim.deadlock = True
                sim.ev("deadlock", me, "join")
                raise Deadlock("join() on a timer whose callback is blocked")

    def setDaemon(self, v):  # noqa: N802 - threading API
        self.daemon = v


class SimLock:
    """threading.Lock owned by the simulator (only the baton holder runs)."""
    reentrant = False

    def __init__(self):
        self.owner = None
        self.count = 0

    def _free_for(self, me):
        return self.owner is None or (self.reentrant and self.owner == me)

    def acquire(self, blocking=True, timeout=-1):
        sim = SIM
        if sim is None or not sim.active:
            self.owner = "inactive"
            self.count += 1
            return True
        me = sim.current
        sim.yield_point("lock.acquire", clock_ok=False)
        if not self._free_for(me):
            if not blocking:
                return False
            sim.block_on(self, "lock.acquire")
        self.owner = me
        self.count += 1
        sim.ev("lock", me)
        return True

    def release(self):
        sim = SIM
        if self.owner is None:
            raise RuntimeError("release unlocked lock")
        self.count -= 1
        if self.count <= 0:
            self.owner = None
            self.count = 0
        if sim is not None and sim.active:
            sim.ev("unlock", sim.current)
            sim.yield_point("lock.release", clock_ok=False)

    def locked(self):
        return self.owner is not None

    def __enter__(self):
        self.acquire()
        return self

    def __exit__(self, *a):
        self.release()


class SimRLock(SimLock):
    reentrant = True


class SimEvent:
    """threading.Event on the simulator."""

    def __init__(self):
        self._flag = False

    def is_set(self):
        return self._flag

    isSet = is_set

    def set(self):
        self._flag = True
        if SIM is not None and SIM.active:
            SIM.yield_point("event.set", clock_ok=False)

    def clear(self):
        self._flag = False

    def wait(self, timeout=None):
        sim = SIM
        if self._flag or sim is None or not sim.active:
            return self._flag
        return sim.wait_until(lambda: self._flag, timeout, "event.wait")


def adopt_module_sync(module):
    """Synchronisation objects a module created at import time (module
    globals, class attributes) are real ones: a baton thread blocking on a
    real lock that another baton thread holds would stop the whole
    simulation.  Replace every such object by its simulated counterpart
    (they are idle in the pristine worker a run is forked from).  Returns
    the names replaced."""
    import threading as _th
    real_lock = type(_th.Lock())
    real_rlock = type(_th.RLock())
    done = []

    def swap(holder, name, obj, setter):
        if isinstance(obj, real_lock):
            setter(SimLock())
        elif isinstance(obj, real_rlock):
            setter(SimRLock())
        elif isinstance(obj, _th.Event):
            setter(SimEvent())
        else:
            return
        done.append("%s.%s" % (holder, name))
    for name, obj in list(vars(module).items()):
        swap(module.__name__, name, obj,
             lambda v, name=name: setattr(module, name, v))
        if isinstance(obj, type) and obj.__module__ == module.__name__:
            for an, av in list(vars(obj).items()):
                swap(obj.__name__, an, av,
                     lambda v, obj=obj, an=an: setattr(obj, an, v))
    return done


class SimThread:
    """threading.Thread as a baton thread of the simulator."""
    _seq = [0]

    def __init__(self, group=None, target=None, name=None, args=(),
                 kwargs=None, daemon=None):
        SimThread._seq[0] += 1
        self.name = name or "SimThread-%d" % SimThread._seq[0]
        self._sim_name = "th%d" % SimThread._seq[0]
        self._target = target
        self._args = tuple(args)
        self._kwargs = dict(kwargs or {})
        self.daemon = bool(daemon)
        self._started = False
        self._finished = False

    def run(self):
        if self._target is not None:
            self._target(*self._args, **self._kwargs)

    def start(self):
        sim = SIM
        if self._started:
            raise RuntimeError("threads can only be started once")
        self._started = True
        sim.ev("thread-start", self._sim_name, sim.current)
        sim.probe("helper_thread_started")

        def body():
            try:
                self.run()
            finally:
                self._finished = True
        sim.spawn(self._sim_name, body)

    def is_alive(self):
        return self._started and not self._finished

    def join(self, timeout=None):
        if not self._started:
            raise RuntimeError("cannot join thread before it is started")
        sim = SIM
        if sim is None or not sim.active:
            return
        sim.wait_until(lambda: self._finished, timeout, "thread.join")

    def setDaemon(self, v):  # noqa: N802
        self.daemon = v


class ThreadingShim(types.ModuleType):
    """Stand-in for the ``threading`` module inside a simulated module."""

    def __init__(self):
        super().__init__("threading")
        self.Timer = SimTimer
        self.Lock = SimLock
        self.RLock = SimRLock
        self.Event = SimEvent
        self.Thread = SimThread

    def __getattr__(self, name):
        return getattr(threading, name)


class RecordingStream(io.TextIOBase):
    """sys.stdout replacement: records who writes when; a yield point."""

    def __init__(self, sim):
        super().__init__()
        self.sim = sim
        self.chunks = 0
        self.fail_from = None     # the k-th write (1-based) and all later
        #                           ones raise (a closed pipe stays closed)
        self.failed = 0

    def writable(self):
        return True

    def write(self, s):
        sim = self.sim
        self.chunks += 1
        if self.fail_from is not None and sim.active and \
                self.chunks >= self.fail_from:
            self.failed += 1
            sim.ev("write-error", sim.current)
            raise BrokenPipeError(32, "Broken pipe (injected)")
        sim.writes_total += 1
        if sim.active:
            sim.ev("write", sim.current, len(s))
            if sim.api_ended:
                sim.writes_after_end += 1
            sim.yield_point("stream.write", clock_ok=False)
        return len(s)

    def flush(self):
        pass


# ---------------------------------------------------------------------------
# pre-emption via sys.monitoring

TOOL_ID = 3


def code_objects_of(module, classes_only=False):
    """All code objects defined in ``module`` (functions, methods, nested)."""
    out = []
    seen = set()

    def rec(co):
        if id(co) in seen:
            return
        seen.add(id(co))
        out.append(co)
        for c in co.co_consts:
            if isinstance(c, types.CodeType):
                rec(c)

    def from_func(f):
        f = getattr(f, "__func__", f)
        f = getattr(f, "__wrapped__", f)
        if isinstance(f, types.FunctionType):
            rec(f.__code__)
        elif isinstance(f, property):
            for g in (f.fget, f.fset, f.fdel):
                if g is not None:
                    from_func(g)

    for v in list(vars(module).values()):
        if isinstance(v, type) and v.__module__ == module.__name__:
            for f in list(vars(v).values()):
                if isinstance(f, (staticmethod, classmethod)):
                    f = f.__func__
                from_func(f)
        elif (not classes_only and isinstance(v, types.FunctionType)
              and v.__module__ == module.__name__):
            from_func(v)
    return out


def enable_line_events(codes, callback):
    mon = sys.monitoring
    try:
        mon.use_tool_id(TOOL_ID, "dsim")
    except ValueError:
        pass
    mon.register_callback(TOOL_ID, mon.events.LINE, callback)
    for co in codes:
        mon.set_local_events(TOOL_ID, co, mon.events.LINE)


def disable_line_events(codes):
    mon = sys.monitoring
    for co in codes:
        mon.set_local_events(TOOL_ID, co, 0)
    mon.register_callback(TOOL_ID, mon.events.LINE, None)
