#!/bin/sh
# Offline setup: nothing to build; verify the interpreter and its packages.
set -e
/venv/bin/python - <<'PY'
import sys
assert sys.version_info[:2] >= (3, 12), "sys.monitoring needs Python >= 3.12"
import numpy, scipy, h5py, tensornetwork  # noqa: F401
sys.path.insert(0, "/repo")
import oqupy
print("setup ok: python", sys.version.split()[0], "oqupy from", oqupy.__file__)
PY
